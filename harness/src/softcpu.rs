//! Software CPU: a SIGSEGV/SIGILL handler that decodes the faulting privileged instruction,
//! applies it to an emulated register file, logs opcode and operands, and resumes.
//! Only the instructions the x86_64 crate emits are understood; anything else re-raises.
#![allow(static_mut_refs)]
use libc::{c_int, c_void, siginfo_t, ucontext_t};
use std::sync::atomic::Ordering;

#[derive(Clone, Copy, Debug, PartialEq, Eq)]
#[repr(u8)]
pub enum Op {
    Cli = 1,
    Sti = 2,
    Hlt = 3,
    In = 4,         // a = width, b = port (DX), c = value delivered
    Out = 5,        // a = width, b = port (DX), c = value (AL/AX/EAX), d = full RAX
    MovFromCr = 6,  // a = n, b = value
    MovToCr = 7,    // a = n, b = value
    MovFromDr = 8,
    MovToDr = 9,
    Rdmsr = 10,     // a = ECX, b = value
    Wrmsr = 11,     // a = ECX, b = value (EDX:EAX), c = raw RAX, d = raw RDX
    Xsetbv = 12,    // a = ECX, b = value, c = raw RAX, d = raw RDX
    Lgdt = 13,      // a = limit, b = base, c = operand address
    Lidt = 14,
    Ltr = 15,       // a = selector
    Invlpg = 16,    // a = address
    Invpcid = 17,   // a = kind register, b = desc word 0, c = desc word 1
    Invlpgb = 18,   // a = RAX, b = ECX, c = EDX
    Tlbsync = 19,
    Swapgs = 20,
    MovToSreg = 21, // a = sreg number (0 es,1 cs,2 ss,3 ds,4 fs,5 gs), b = selector
    Retfq = 22,     // a = CS selector popped, b = RIP popped
}

#[derive(Clone, Copy, Debug)]
pub struct Trap {
    pub op: Op,
    pub a: u64,
    pub b: u64,
    pub c: u64,
    pub d: u64,
    pub rip: u64,
    pub len: u64,
}

pub const MSR_FS_BASE: u32 = 0xC000_0100;
pub const MSR_GS_BASE: u32 = 0xC000_0101;
pub const MSR_KERNEL_GS_BASE: u32 = 0xC000_0102;
const NMSR: usize = 96;
const NLOG: usize = 1 << 16;

pub struct Cpu {
    pub cr: [u64; 16],
    pub dr: [u64; 8],
    pub xcr0: u64,
    msr_idx: [u32; NMSR],
    msr_val: [u64; NMSR],
    nmsr: usize,
    pub msr_default: u64,
    pub gdtr: (u16, u64),
    pub idtr: (u16, u64),
    pub tr: u16,
    pub sreg: [u32; 6],
    pub port_seed: u64,
    pub port_seq: u64,
    pub unknown: u64,
    log: [Trap; NLOG],
    nlog: usize,
    pub dropped: u64,
}

const T0: Trap = Trap { op: Op::Hlt, a: 0, b: 0, c: 0, d: 0, rip: 0, len: 0 };
static mut CPU: Cpu = Cpu {
    cr: [0; 16],
    dr: [0; 8],
    xcr0: 0,
    msr_idx: [0; NMSR],
    msr_val: [0; NMSR],
    nmsr: 0,
    msr_default: 0,
    gdtr: (0, 0),
    idtr: (0, 0),
    tr: 0,
    sreg: [0; 6],
    port_seed: 0,
    port_seq: 0,
    unknown: 0,
    log: [T0; NLOG],
    nlog: 0,
    dropped: 0,
};

pub fn cpu() -> &'static mut Cpu {
    unsafe { &mut CPU }
}

impl Cpu {
    pub fn msr(&self, idx: u32) -> u64 {
        for i in 0..self.nmsr {
            if self.msr_idx[i] == idx {
                return self.msr_val[i];
            }
        }
        self.msr_default
    }
    pub fn set_msr(&mut self, idx: u32, v: u64) {
        for i in 0..self.nmsr {
            if self.msr_idx[i] == idx {
                self.msr_val[i] = v;
                return;
            }
        }
        if self.nmsr < NMSR {
            self.msr_idx[self.nmsr] = idx;
            self.msr_val[self.nmsr] = v;
            self.nmsr += 1;
        }
    }
    pub fn reset(&mut self) {
        self.cr = [0; 16];
        self.dr = [0; 8];
        self.xcr0 = 0;
        self.nmsr = 0;
        self.msr_default = 0;
        self.gdtr = (0, 0);
        self.idtr = (0, 0);
        self.tr = 0;
        self.sreg = [0; 6];
        self.port_seq = 0;
        self.nlog = 0;
        self.dropped = 0;
        set_if(true);
        x86_64::registers::xcontrol::VERIF_XCR0.store(0, Ordering::SeqCst);
    }
    pub fn set_xcr0(&mut self, v: u64) {
        self.xcr0 = v;
        x86_64::registers::xcontrol::VERIF_XCR0.store(v, Ordering::SeqCst);
    }
    pub fn take_log(&mut self) -> Vec<Trap> {
        let v = self.log[..self.nlog].to_vec();
        self.nlog = 0;
        v
    }
    fn push(&mut self, t: Trap) {
        if self.nlog < NLOG {
            self.log[self.nlog] = t;
            self.nlog += 1;
        } else {
            self.dropped += 1;
        }
    }
    /// what the emulated device returns for a read of `width` bits from `port`
    pub fn device_value(seed: u64, port: u64, seq: u64, width: u64) -> u64 {
        let mut z = seed ^ (port.wrapping_mul(0x9e37_79b9_7f4a_7c15)) ^ seq.wrapping_mul(0xbf58_476d_1ce4_e5b9);
        z = (z ^ (z >> 30)).wrapping_mul(0xbf58_476d_1ce4_e5b9);
        z = (z ^ (z >> 27)).wrapping_mul(0x94d0_49bb_1331_11eb);
        z ^= z >> 31;
        if width == 32 { z & 0xffff_ffff } else { z & ((1 << width) - 1) }
    }
}

pub fn get_if() -> bool {
    x86_64::registers::rflags::VERIF_IF.load(Ordering::SeqCst)
}
pub fn set_if(b: bool) {
    x86_64::registers::rflags::VERIF_IF.store(b, Ordering::SeqCst)
}

// x86 register number -> index into gregs
const GREG: [usize; 16] = [
    libc::REG_RAX as usize, libc::REG_RCX as usize, libc::REG_RDX as usize, libc::REG_RBX as usize,
    libc::REG_RSP as usize, libc::REG_RBP as usize, libc::REG_RSI as usize, libc::REG_RDI as usize,
    libc::REG_R8 as usize, libc::REG_R9 as usize, libc::REG_R10 as usize, libc::REG_R11 as usize,
    libc::REG_R12 as usize, libc::REG_R13 as usize, libc::REG_R14 as usize, libc::REG_R15 as usize,
];

struct Ctx {
    g: *mut i64,
}
impl Ctx {
    fn reg(&self, n: usize) -> u64 {
        unsafe { *self.g.add(GREG[n]) as u64 }
    }
    fn set_reg(&self, n: usize, v: u64) {
        unsafe { *self.g.add(GREG[n]) = v as i64 }
    }
    fn rip(&self) -> u64 {
        unsafe { *self.g.add(libc::REG_RIP as usize) as u64 }
    }
    fn set_rip(&self, v: u64) {
        unsafe { *self.g.add(libc::REG_RIP as usize) = v as i64 }
    }
}

struct ModRm {
    md: u8,
    reg: usize,
    rm: usize,
    ea: u64, // effective address when md != 3
    len: usize,
}

/// decode ModRM (+SIB, displacement) at p; `rex` is the REX byte or 0; `after` = bytes of
/// immediate following (for RIP-relative), none in the instructions we handle
unsafe fn modrm(ctx: &Ctx, p: *const u8, rex: u8, insn_start: u64, prefix_len: usize) -> ModRm {
    let b = *p;
    let md = b >> 6;
    let reg = (((b >> 3) & 7) as usize) | (((rex >> 2) & 1) as usize) << 3;
    let rm_low = (b & 7) as usize;
    let rm = rm_low | ((rex & 1) as usize) << 3;
    let mut len = 1usize;
    let mut ea = 0u64;
    if md != 3 {
        let mut base: Option<u64> = None;
        let mut riprel = false;
        if rm_low == 4 {
            let sib = *p.add(1);
            len += 1;
            let scale = 1u64 << (sib >> 6);
            let idx = (((sib >> 3) & 7) as usize) | (((rex >> 1) & 1) as usize) << 3;
            let bs_low = (sib & 7) as usize;
            let bs = bs_low | ((rex & 1) as usize) << 3;
            if idx != 4 {
                ea = ea.wrapping_add(ctx.reg(idx).wrapping_mul(scale));
            }
            if bs_low == 5 && md == 0 {
                let d = core::ptr::read_unaligned(p.add(len) as *const i32);
                len += 4;
                ea = ea.wrapping_add(d as i64 as u64);
            } else {
                base = Some(ctx.reg(bs));
            }
        } else if rm_low == 5 && md == 0 {
            riprel = true;
        } else {
            base = Some(ctx.reg(rm));
        }
        if let Some(b) = base {
            ea = ea.wrapping_add(b);
        }
        if md == 1 {
            let d = *(p.add(len) as *const i8);
            len += 1;
            ea = ea.wrapping_add(d as i64 as u64);
        } else if md == 2 || riprel {
            let d = core::ptr::read_unaligned(p.add(len) as *const i32);
            len += 4;
            ea = ea.wrapping_add(d as i64 as u64);
            if riprel {
                // relative to the address of the next instruction (no immediate follows)
                let next = (p as u64).wrapping_add(len as u64);
                let _ = (insn_start, prefix_len);
                ea = ea.wrapping_add(next);
            }
        }
    }
    ModRm { md, reg, rm, ea, len }
}

unsafe fn emulate(ctx: &Ctx) -> bool {
    let c = cpu();
    let rip = ctx.rip();
    let mut p = rip as *const u8;
    let mut op16 = false;
    let mut rex = 0u8;
    loop {
        let b = *p;
        match b {
            0x66 => op16 = true,
            0xf2 | 0xf3 | 0x2e | 0x36 | 0x3e | 0x26 | 0x64 | 0x65 | 0x67 => {}
            0x40..=0x4f => {
                rex = b;
                p = p.add(1);
                break;
            }
            _ => break,
        }
        p = p.add(1);
    }
    let prefix_len = p as usize - rip as usize;
    let op = *p;
    p = p.add(1);
    let mut t = Trap { op: Op::Hlt, a: 0, b: 0, c: 0, d: 0, rip, len: 0 };
    let rax = ctx.reg(0);
    let rcx = ctx.reg(1);
    let rdx = ctx.reg(2);
    match op {
        0xfa => {
            t.op = Op::Cli;
            set_if(false);
        }
        0xfb => {
            t.op = Op::Sti;
            set_if(true);
        }
        0xf4 => t.op = Op::Hlt,
        0xec | 0xed => {
            let width = if op == 0xec { 8 } else if op16 { 16 } else { 32 };
            let port = rdx & 0xffff;
            let v = Cpu::device_value(c.port_seed, port, c.port_seq, width);
            c.port_seq += 1;
            let new = match width {
                8 => (rax & !0xff) | v,
                16 => (rax & !0xffff) | v,
                _ => v,
            };
            ctx.set_reg(0, new);
            t.op = Op::In;
            t.a = width;
            t.b = rdx;
            t.c = v;
        }
        0xee | 0xef => {
            let width = if op == 0xee { 8 } else if op16 { 16 } else { 32 };
            t.op = Op::Out;
            t.a = width;
            t.b = rdx;
            t.c = if width == 32 { rax & 0xffff_ffff } else { rax & ((1 << width) - 1) };
            t.d = rax;
        }
        0x8e => {
            let m = modrm(ctx, p, rex, rip, prefix_len);
            p = p.add(m.len);
            let v = if m.md == 3 { ctx.reg(m.rm) & 0xffff } else { core::ptr::read_unaligned(m.ea as *const u16) as u64 };
            t.op = Op::MovToSreg;
            t.a = (m.reg & 7) as u64;
            t.b = v;
            if (m.reg & 7) < 6 {
                c.sreg[m.reg & 7] = (v as u16) as u32;
            }
        }
        0xcb => {
            // retfq (REX.W): pop RIP, pop CS
            let rsp = ctx.reg(4);
            let new_rip = *(rsp as *const u64);
            let cs = *((rsp + 8) as *const u64);
            ctx.set_reg(4, rsp + 16);
            t.op = Op::Retfq;
            t.a = cs;
            t.b = new_rip;
            c.sreg[1] = (cs as u16) as u32;
            t.len = (p as u64) - rip;
            c.push(t);
            ctx.set_rip(new_rip);
            return true;
        }
        0x0f => {
            let op2 = *p;
            p = p.add(1);
            match op2 {
                0x20 | 0x21 | 0x22 | 0x23 => {
                    let m = modrm(ctx, p, rex, rip, prefix_len);
                    p = p.add(m.len);
                    let n = m.reg; // control/debug register number (REX.R extends)
                    match op2 {
                        0x20 => {
                            if n == 3 && EXIT_ON_CR3_READ.load(core::sync::atomic::Ordering::SeqCst) {
                                // a forked child that only wants to know whether CR3 is reached at all
                                libc::_exit(42);
                            }
                            let v = c.cr[n & 15];
                            ctx.set_reg(m.rm, v);
                            t.op = Op::MovFromCr;
                            t.a = n as u64;
                            t.b = v;
                        }
                        0x22 => {
                            let v = ctx.reg(m.rm);
                            c.cr[n & 15] = v;
                            t.op = Op::MovToCr;
                            t.a = n as u64;
                            t.b = v;
                        }
                        0x21 => {
                            let v = c.dr[n & 7];
                            ctx.set_reg(m.rm, v);
                            t.op = Op::MovFromDr;
                            t.a = n as u64;
                            t.b = v;
                        }
                        _ => {
                            let v = ctx.reg(m.rm);
                            c.dr[n & 7] = v;
                            t.op = Op::MovToDr;
                            t.a = n as u64;
                            t.b = v;
                        }
                    }
                }
                0x32 => {
                    let idx = rcx as u32;
                    let v = c.msr(idx);
                    ctx.set_reg(0, v & 0xffff_ffff);
                    ctx.set_reg(2, v >> 32);
                    t.op = Op::Rdmsr;
                    t.a = rcx;
                    t.b = v;
                }
                0x30 => {
                    let idx = rcx as u32;
                    let v = ((rdx & 0xffff_ffff) << 32) | (rax & 0xffff_ffff);
                    c.set_msr(idx, v);
                    t.op = Op::Wrmsr;
                    t.a = rcx;
                    t.b = v;
                    t.c = rax;
                    t.d = rdx;
                }
                0x00 => {
                    let m = modrm(ctx, p, rex, rip, prefix_len);
                    p = p.add(m.len);
                    if (m.reg & 7) == 3 {
                        let v = if m.md == 3 { ctx.reg(m.rm) & 0xffff } else { core::ptr::read_unaligned(m.ea as *const u16) as u64 };
                        c.tr = v as u16;
                        t.op = Op::Ltr;
                        t.a = v;
                    } else {
                        return false;
                    }
                }
                0x01 => {
                    let b = *p;
                    if b >> 6 == 3 {
                        p = p.add(1);
                        match b {
                            0xd1 => {
                                let v = ((rdx & 0xffff_ffff) << 32) | (rax & 0xffff_ffff);
                                if rcx as u32 == 0 {
                                    c.set_xcr0(v);
                                }
                                t.op = Op::Xsetbv;
                                t.a = rcx;
                                t.b = v;
                                t.c = rax;
                                t.d = rdx;
                            }
                            0xf8 => {
                                let g = c.msr(MSR_GS_BASE);
                                let k = c.msr(MSR_KERNEL_GS_BASE);
                                c.set_msr(MSR_GS_BASE, k);
                                c.set_msr(MSR_KERNEL_GS_BASE, g);
                                t.op = Op::Swapgs;
                            }
                            0xfe => {
                                t.op = Op::Invlpgb;
                                t.a = rax;
                                t.b = rcx & 0xffff_ffff;
                                t.c = rdx & 0xffff_ffff;
                            }
                            0xff => t.op = Op::Tlbsync,
                            _ => return false,
                        }
                    } else {
                        let m = modrm(ctx, p, rex, rip, prefix_len);
                        p = p.add(m.len);
                        match m.reg & 7 {
                            2 | 3 => {
                                let limit = core::ptr::read_unaligned(m.ea as *const u16);
                                let base = core::ptr::read_unaligned((m.ea + 2) as *const u64);
                                if m.reg & 7 == 2 {
                                    c.gdtr = (limit, base);
                                    t.op = Op::Lgdt;
                                } else {
                                    c.idtr = (limit, base);
                                    t.op = Op::Lidt;
                                }
                                t.a = limit as u64;
                                t.b = base;
                                t.c = m.ea;
                            }
                            7 => {
                                t.op = Op::Invlpg;
                                t.a = m.ea;
                            }
                            _ => return false,
                        }
                    }
                }
                0x38 => {
                    let op3 = *p;
                    p = p.add(1);
                    if op3 == 0x82 && op16 {
                        let m = modrm(ctx, p, rex, rip, prefix_len);
                        p = p.add(m.len);
                        if m.md == 3 {
                            return false;
                        }
                        t.op = Op::Invpcid;
                        t.a = ctx.reg(m.reg);
                        t.b = core::ptr::read_unaligned(m.ea as *const u64);
                        t.c = core::ptr::read_unaligned((m.ea + 8) as *const u64);
                    } else {
                        return false;
                    }
                }
                _ => return false,
            }
        }
        _ => return false,
    }
    t.len = (p as u64) - rip;
    c.push(t);
    ctx.set_rip(p as u64);
    true
}

/// hook for page faults that are not privileged-instruction faults (software MMU)
pub static EXIT_ON_CR3_READ: core::sync::atomic::AtomicBool = core::sync::atomic::AtomicBool::new(false);
pub static mut FAULT_HOOK: Option<unsafe fn(addr: u64, write: bool) -> bool> = None;

extern "C" fn handler(sig: c_int, info: *mut siginfo_t, uctx: *mut c_void) {
    unsafe {
        let uc = uctx as *mut ucontext_t;
        let ctx = Ctx { g: (*uc).uc_mcontext.gregs.as_mut_ptr() };
        let code = (*info).si_code;
        let mut ok = false;
        if sig == libc::SIGILL || (sig == libc::SIGSEGV && code == 0x80) {
            ok = emulate(&ctx);
        } else if sig == libc::SIGSEGV {
            if let Some(h) = FAULT_HOOK {
                let err = *(*uc).uc_mcontext.gregs.as_ptr().add(libc::REG_ERR as usize) as u64;
                ok = h((*info).si_addr() as u64, err & 2 != 0);
            }
        }
        if !ok {
            cpu().unknown += 1;
            // restore default action and return: the instruction re-faults and kills the process
            let mut sa: libc::sigaction = core::mem::zeroed();
            sa.sa_sigaction = libc::SIG_DFL;
            libc::sigaction(sig, &sa, core::ptr::null_mut());
        }
    }
}

pub fn install() {
    unsafe {
        // alternate stack so that faults taken on private stacks are survivable
        let sz = 1 << 16;
        let stk = libc::mmap(core::ptr::null_mut(), sz, libc::PROT_READ | libc::PROT_WRITE, libc::MAP_PRIVATE | libc::MAP_ANONYMOUS, -1, 0);
        let ss = libc::stack_t { ss_sp: stk, ss_flags: 0, ss_size: sz };
        libc::sigaltstack(&ss, core::ptr::null_mut());
        let mut sa: libc::sigaction = core::mem::zeroed();
        sa.sa_sigaction = handler as usize;
        sa.sa_flags = libc::SA_SIGINFO | libc::SA_ONSTACK | libc::SA_NODEFER;
        libc::sigemptyset(&mut sa.sa_mask);
        libc::sigaction(libc::SIGSEGV, &sa, core::ptr::null_mut());
        libc::sigaction(libc::SIGILL, &sa, core::ptr::null_mut());
        x86_64::registers::xcontrol::VERIF_XCR0_EMULATED.store(true, Ordering::SeqCst);
    }
}

static INSTALLED: std::sync::atomic::AtomicBool = std::sync::atomic::AtomicBool::new(false);
pub fn install_once() {
    if !INSTALLED.swap(true, Ordering::SeqCst) {
        install();
    }
}
