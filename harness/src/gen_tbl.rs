//! Generators and oracles for the table/codec properties C08, C12, C14, C15.
use crate::gen_addr::{any_u64, boundary, phys};
use crate::util::*;
use std::collections::HashSet;
use std::io::Write;

fn emit(out: &mut impl Write, c: &[u64]) {
    writeln!(out, "{}", fmt_case(c)).unwrap();
}
const PTF_MASK: u64 = 0xfff0_0000_0000_0fff; // bits 0-11 and 52-63 (the property's flag domain)

fn flagset(rng: &mut Rng) -> u64 {
    match rng.below(6) {
        0 => 1u64 << rng.pick(&[0u64, 1, 2, 3, 4, 5, 6, 7, 8, 9, 10, 11, 52, 53, 54, 55, 56, 57, 58, 59, 60, 61, 62, 63]),
        1 => PTF_MASK,
        2 => 0,
        3 => (rng.next() & PTF_MASK) | 1,
        _ => rng.next() & PTF_MASK,
    }
}
fn aligned_phys(rng: &mut Rng) -> u64 {
    match rng.below(5) {
        0 => 0x1000 << rng.below(40),
        1 => 0x000f_ffff_ffff_f000,
        2 => (1u64 << (12 + rng.below(40))) | 0x1000,
        _ => phys(rng) & !0xfff,
    }
}

pub fn gen(prop: &str, seed: u64, thorough: bool, out: &mut impl Write) {
    let mut rng = Rng::new(seed ^ u64::from_str_radix(&prop[1..], 10).unwrap() * 0x7654321);
    let rng = &mut rng;
    match prop {
        "C08" => {
            emit(out, &[4]);
            let n = if thorough { 2_000_000 } else { 60_000 };
            for _ in 0..n / 4 {
                emit(out, &[1, if rng.chance(1, 2) { any_u64(rng) } else { aligned_phys(rng) | flagset(rng) }]);
                emit(out, &[5, any_u64(rng)]);
            }
            for _ in 0..n {
                // programs of setters, mostly valid arguments
                let len = 1 + rng.below(8);
                let mut c = vec![2, if rng.chance(2, 3) { 0 } else { aligned_phys(rng) | flagset(rng) }];
                for _ in 0..len {
                    let op = rng.below(4);
                    let a = match rng.below(12) {
                        0 => aligned_phys(rng) | (1 << rng.below(12)), // misaligned -> set_addr must panic
                        1 => boundary(rng),
                        _ => aligned_phys(rng),
                    };
                    let f = if rng.chance(1, 25) { flagset(rng) | 0x1000 } else if rng.chance(1, 40) { rng.next() } else { flagset(rng) };
                    c.extend([op, a, f]);
                }
                emit(out, &c);
            }
            // tables: every slot through every write path
            for path in 0..3u64 {
                let mut c = vec![3];
                for i in 0..512u64 {
                    c.extend([path, i, (i + 1) * 0x1000 | 1 | (path << 52)]);
                }
                emit(out, &c);
                for i in 0..512u64 {
                    emit(out, &[3, path, i, rng.next() | 1]);
                }
            }
            emit(out, &[3]);
            emit(out, &[3, 0, 512, 1]);
            emit(out, &[3, 1, 512, 1]);
            emit(out, &[3, 2, 512, 1]);
            let tabs = if thorough { 20_000 } else { 600 };
            for _ in 0..tabs {
                let mut c = vec![3];
                for _ in 0..rng.below(20) {
                    c.extend([rng.below(3), if rng.chance(1, 3) { rng.pick(&[0u64, 1, 255, 256, 510, 511]) } else { rng.below(512) }, any_u64(rng)]);
                }
                emit(out, &c);
            }
            // tables whose non-zero entries "cancel": the same word in two or four slots, words a, b, a^b,
            // a word and its two's complement (is_empty must look at every entry, not at a fold of them)
            for _ in 0..tabs {
                let mut c = vec![3];
                let w = if rng.chance(2, 3) { aligned_phys(rng) | flagset(rng) | 1 } else { any_u64(rng) | 1 };
                let w2 = aligned_phys(rng) | flagset(rng) | 1;
                let mut slots: Vec<u64> = vec![];
                while slots.len() < 4 { let i = if rng.chance(1, 4) { rng.pick(&[0u64, 1, 255, 256, 510, 511]) } else { rng.below(512) }; if !slots.contains(&i) { slots.push(i); } }
                match rng.below(4) {
                    0 => for i in &slots[..2] { c.extend([rng.below(3), *i, w]); },
                    1 => for i in &slots { c.extend([rng.below(3), *i, w]); },
                    2 => { c.extend([rng.below(3), slots[0], w]); c.extend([rng.below(3), slots[1], w2]); c.extend([rng.below(3), slots[2], w ^ w2]); }
                    _ => { c.extend([rng.below(3), slots[0], w]); c.extend([rng.below(3), slots[1], w.wrapping_neg()]); }
                }
                emit(out, &c);
            }
        }
        "C14" => {
            let maxes = [0u64, 1, 2, 3, 8, 9, 8192, 8193];
            let desc = |rng: &mut Rng, c: &mut Vec<u64>| {
                let dpl = rng.below(4) << 45;
                let w = match rng.below(4) { 0 => 0x00af_9b00_0000_ffff, 1 => rng.next(), 2 => u64::MAX, _ => rng.next() & !(3 << 45) | dpl };
                if rng.chance(2, 3) { c.extend([0, w, 0]); } else { c.extend([1, w, rng.next()]); }
            };
            let n = if thorough { 400_000 } else { 5_000 };
            for i in 0..n {
                let max = if i < 64 { maxes[(i % 8) as usize] } else { rng.pick(&maxes) };
                let mode = if rng.chance(1, 12) { 3 } else { 1 };
                let mut c = vec![mode, max];
                let nops = if max >= 8192 { if rng.chance(1, 250) { 8190 + rng.below(6) } else { rng.below(30) } } else { rng.below(max + 4) };
                for _ in 0..nops { desc(rng, &mut c); }
                emit(out, &c);
            }
            for _ in 0..n / 4 {
                let max = rng.pick(&maxes);
                let len = if max >= 8192 { if rng.chance(1, 30) { max.min(8192) + rng.below(2) } else { rng.below(20) } } else { rng.below(max + 3) };
                let mut c = vec![2, max];
                // entries: arbitrary words, with zero words anywhere (a zero is a legal entry: the null descriptor,
                // the upper half of a system descriptor whose base lies below 4 GiB), in particular at the end
                let zeros_tail = if rng.chance(1, 3) { 1 + rng.below(3) } else { 0 };
                for j in 0..len { c.push(if (j == 0 && rng.chance(9, 10)) || j + zeros_tail >= len || rng.chance(1, 10) { 0 } else { rng.next() }); }
                emit(out, &c);
            }
        }
        "C15" => {
            emit(out, &[11]);
            emit(out, &[13]);
            for i in 0..64u64 {
                for p in [1u64 << i, !(1u64 << i), (1u64 << i).wrapping_sub(1), (0xffu64 << (i & 56))] {
                    emit(out, &[10, p]);
                }
            }
            for io in [0u64, 1, 0x67, 0x68, 0x69, 0x100, 0x7fff, 0x8000, 0xfffe, 0xffff] { emit(out, &[14, io, rng.next()]); }
            for _ in 0..2000 { emit(out, &[14, rng.below(1 << 16), rng.next()]); }
            let n = if thorough { 3_000_000 } else { 60_000 };
            for _ in 0..n {
                emit(out, &[10, any_u64(rng)]);
                emit(out, &[12, rng.below(2), if rng.chance(1, 2) { rng.next() } else { rng.below(4) << 45 | (rng.next() & 0xffff) }, rng.next()]);
            }
        }
        "C12" => {
            emit(out, &[24]);
            emit(out, &[25]);
            for v in 0..256u64 {
                emit(out, &[20, v, 0]);
                emit(out, &[20, v, 1]);
                emit(out, &[21, v]);
            }
            // every (start, end) pair; quick: two random forms per pair, thorough: every form
            for s in 0..256u64 {
                for e in 0..256u64 {
                    if thorough {
                        for form in 0..15 { emit(out, &[22, form, s, e, rng.below(5)]); }
                    } else {
                        emit(out, &[22, rng.below(15), s, e, rng.below(5)]);
                        emit(out, &[22, rng.below(9), s, e, rng.below(5)]);
                    }
                }
            }
            let n = if thorough { 1_000_000 } else { 40_000 };
            for _ in 0..n {
                let mut c = vec![23, 0x33];
                let len = 1 + rng.below(10);
                for i in 0..len {
                    let op = if i == 0 || rng.chance(1, 8) { 0 } else { 1 + rng.below(5) };
                    let arg = match op {
                        0 => if rng.chance(1, 30) { any_u64(rng) } else { crate::gen_addr::canon(rng) },
                        1 | 2 => rng.below(2),
                        3 => if rng.chance(1, 20) { 4 + rng.below(4) } else { rng.below(4) },
                        4 => match rng.below(12) { 0 => 7, 1 => 0xffff, 2 => 8 + rng.below(100), _ => rng.below(7) },
                        _ => rng.below(65536),
                    };
                    c.extend([op, arg]);
                }
                emit(out, &c);
            }
        }
        "C19" => {
            for v in 0..=0xffffu64 {
                emit(out, &[3, v]);
                emit(out, &[7, v]);
                emit(out, &[10, v]);
                emit(out, &[1, v, v & 3]);
                for rp in 0..4 { emit(out, &[2, v, rp]); }
            }
            emit(out, &[1, 5, 4]);
            emit(out, &[2, 5, 7]);
            for v in 0..=0xffu64 {
                emit(out, &[5, v]);
                emit(out, &[8, v]);
                emit(out, &[9, v]);
                emit(out, &[6, v]);
            }
            for n in 0..5u64 { emit(out, &[11, n]); }
            for v in [0x1_0000u64, 0x1_0001, u64::MAX, 1 << 32, 0xffff_ffff] { emit(out, &[10, v]); }
            let nbits = if thorough { 4000 } else { 150 };
            for n in 0..4u64 { for cd in 0..4u64 { for sz in 0..4u64 {
                for k in 0..nbits {
                    let bits = match k % 6 { 0 => 0, 1 => u64::MAX, 2 => 0xFFFF_2BFF, 3 => 1u64 << (k % 64), 4 => rng.next() & 0xFFFF_2BFF, _ => rng.next() };
                    emit(out, &[4, bits, n, cd, sz, rng.next()]);
                }
            }}}
            emit(out, &[4, 0, 4, 0, 0, 0]);
        }
        _ => panic!("gen_tbl: unknown property"),
    }
}

fn decode_gate(lo: u64, hi: u64) -> (u64, u64, u64, u64, u64, u64, u64, u64) {
    // offset, selector, ist, must-be-zero bits, type, dpl, present, reserved (SDM 64-bit IDT gate)
    let offset = (lo & 0xffff) | ((lo >> 48) << 16) | ((hi & 0xffff_ffff) << 32);
    (offset, (lo >> 16) & 0xffff, (lo >> 32) & 7, ((lo >> 35) & 0x1f) | (((lo >> 44) & 1) << 5), (lo >> 40) & 0xf, (lo >> 45) & 3, (lo >> 47) & 1, hi >> 32)
}

/// (failing clause | None, known-finding id | None, non-trivial)
fn judge(prop: &str, c: &[u64], a: &[i128]) -> (Option<&'static str>, Option<&'static str>, bool) {
    match prop {
        "C08" => match c[0] {
            1 => {
                // observe(e) = raw, is_unused, flags, addr, frame
                let e = c[1];
                if a.len() != 5 { return (Some("entry getters panicked"), None, true); }
                if a[0] != e as i128 { return (Some("raw entry changed by reading"), None, true); }
                if a[1] != (e == 0) as i128 { return (Some("is_unused must hold exactly for the all-zero entry"), None, true); }
                if (a[4] >= 0) != (e & 1 == 1) { return (Some("frame() must succeed exactly when PRESENT is set"), None, true); }
                if a[3] != (e & 0x000f_ffff_ffff_f000) as i128 { return (Some("addr() must be bits 12-51"), None, true); }
                if a[4] >= 0 && a[4] != a[3] { return (Some("frame() must be the frame at addr()"), None, true); }
                (None, None, e & 1 == 1 || e == 0)
            }
            2 => {
                // replay the program against "what was stored" (stored address, stored flags)
                let mut idx = 5; // after observe(e0)
                let mut stored_addr: Option<u64> = None; // unknown for an arbitrary initial raw entry
                let mut known: Option<&'static str> = None;
                let mut nt = false;
                let mut pos = 2;
                if c[1] == 0 { stored_addr = Some(0); }
                while pos + 2 < c.len() + 0 && pos + 3 <= c.len() {
                    let (op, ad, fl) = (c[pos], c[pos + 1], c[pos + 2]);
                    pos += 3;
                    let in_domain = fl & !PTF_MASK == 0;
                    let declared = fl & !0xfff0_0000_0000_1fffu64 == 0;
                    let validaddr = ad < (1 << 52);
                    let expect_panic = !declared || ((op == 0 || op == 1) && (!validaddr || ad & 0xfff != 0));
                    if idx >= a.len() { return (Some("answer shorter than program"), None, true); }
                    if a[idx] == -1 {
                        nt = true;
                        if !expect_panic { return (Some("setter panicked on an aligned address and declared flags"), None, true); }
                        return (None, known, nt);
                    }
                    if expect_panic && (op == 0 || op == 1 || !declared) { return (Some("set_addr/set_frame must reject a misaligned address (and undeclared flag bits must be rejected by from_bits)"), None, true); }
                    if idx + 5 > a.len() { return (Some("truncated observation"), None, true); }
                    let (rawv, unused, flags, addr, frame) = (a[idx] as u64, a[idx + 1], a[idx + 2] as u64, a[idx + 3], a[idx + 4]);
                    idx += 5;
                    if !in_domain { stored_addr = None; continue; } // PAT_HUGE_PAGE as a flag: outside the property's flag domain
                    match op {
                        0 | 1 => {
                            stored_addr = Some(ad);
                            if rawv != ad | fl { return (Some("set_addr must store exactly address | flags (hardware layout)"), None, true); }
                        }
                        2 => {
                            if let Some(sa) = stored_addr { if rawv != sa | fl { return (Some("set_flags must keep the address and store exactly the flags"), None, true); } }
                        }
                        _ => { stored_addr = Some(0); if rawv != 0 { return (Some("set_unused must clear the entry"), None, true); } }
                    }
                    if unused != (rawv == 0) as i128 { return (Some("is_unused must hold exactly for the all-zero entry"), None, true); }
                    if (frame >= 0) != (rawv & 1 == 1) { return (Some("frame() must succeed exactly when PRESENT is set"), None, true); }
                    if let Some(sa) = stored_addr {
                        if op != 3 {
                            if addr != sa as i128 { return (Some("addr() must return the stored address"), None, true); }
                            if flags & PTF_MASK != fl { return (Some("flags() must return the stored flags"), None, true); }
                            if flags != fl {
                                // the only tolerated difference: bit 12 of the stored address read back as PAT_HUGE_PAGE
                                if flags == fl | 0x1000 && sa & 0x1000 != 0 { known = Some("F7a"); } else { return (Some("flags() returned bits that were not stored"), None, true); }
                            }
                            nt |= sa != 0 && fl != 0;
                        }
                    }
                }
                (None, known, nt)
            }
            3 => {
                if a.len() == 1 && a[0] == -1 {
                    let oob = c[1..].chunks(3).any(|ch| ch.len() == 3 && ch[1] >= 512);
                    return (if oob { None } else { Some("table access panicked for an index below 512") }, None, true);
                }
                if a.contains(&-77) { return (Some("access paths ([usize], [PageTableIndex], iter, iter_mut) disagree about a slot, or raw bytes are not 512 little-endian words in index order"), None, true); }
                if a.len() != 515 { return (Some("table dump has wrong length"), None, true); }
                let mut exp = vec![0u64; 512];
                for ch in c[1..].chunks(3) { if ch.len() == 3 { exp[ch[1] as usize] = ch[2]; } }
                for i in 0..512 { if a[i] != exp[i] as i128 { return (Some("a write through an access path landed in the wrong slot (byte 8i..8i+8 must hold entry i)"), None, true); } }
                if a[512] != exp.iter().all(|w| *w == 0) as i128 { return (Some("is_empty must hold exactly when all bytes are zero"), None, true); }
                if a[513] != 1 || a[514] != 0 { return (Some("zero() must leave an all-zero, empty table"), None, true); }
                (None, None, c.len() > 1)
            }
            4 => {
                let exp: [i128; 7] = [1, 4096, 0, 4096, 4096, 8, 8];
                if a != exp { return (Some("PageTable must be one 4 KiB-aligned 4 KiB block of zero bytes when new; entries are 8 bytes"), None, true); }
                (None, None, true)
            }
            5 => {
                let w = c[1];
                for j in 0..8 { if a.get(j).copied() != Some(((w >> (8 * j)) & 0xff) as i128) { return (Some("entry is not stored little-endian"), None, true); } }
                (None, None, true)
            }
            _ => (None, None, false),
        },
        "C14" => match c[0] {
            1 | 3 => {
                let max = c[1];
                if max == 0 || max > 8192 { return (if a == [-1] { None } else { Some("GDT with 0 or more than 8192 entries must be refused") }, None, true); }
                let mut entries: Vec<u64> = vec![0];
                let mut k = 0;
                let mut nt = false;
                for ch in c[2..].chunks(3) {
                    if ch.len() < 3 { break; }
                    let slots = if ch[0] == 0 { 1 } else { 2 };
                    let fits = entries.len() as u64 + slots <= max;
                    if c[0] == 1 {
                        if k >= a.len() { return (Some("answer too short"), None, true); }
                        if fits {
                            let sel = ((entries.len() as u64) << 3) | ((ch[1] >> 45) & 3);
                            if a[k] != sel as i128 { return (Some("append must return a selector whose index is the descriptor's first slot, RPL = descriptor DPL, TI = 0"), None, true); }
                        } else {
                            nt = true;
                            if a[k] != -1 { return (Some("an append that does not fit must panic"), None, true); }
                        }
                    }
                    if fits { entries.push(ch[1]); if slots == 2 { entries.push(ch[2]); } }
                    k += 1;
                }
                let limit = 8 * entries.len() as i128 - 1;
                if c[0] == 3 {
                    if a != [limit, 0] { return (Some("load must hand the CPU the table's own address with limit 8*len-1"), None, true); }
                    return (None, None, true);
                }
                let rest = &a[k..];
                if rest.len() != entries.len() + 2 || rest[0] != entries.len() as i128 { return (Some("table length wrong (an append that panicked must leave the table unchanged; the table never grows beyond MAX)"), None, true); }
                for (i, e) in entries.iter().enumerate() { if rest[1 + i] != *e as i128 { return (Some("entries must be the null descriptor followed by the appended descriptors in order"), None, true); } }
                if rest[1 + entries.len()] != limit { return (Some("limit must be 8 x used slots - 1"), None, true); }
                (None, None, nt || entries.len() > 2)
            }
            2 => {
                let (max, l) = (c[1], &c[2..]);
                let ok = max > 0 && max <= 8192 && !l.is_empty() && l[0] == 0 && l.len() as u64 <= max;
                if !ok { return (if a == [-1] { None } else { Some("from_raw_entries must refuse an empty slice, a non-null first entry or too many entries") }, None, true); }
                if a.len() != l.len() + 2 || a[0] != l.len() as i128 || (0..l.len()).any(|i| a[1 + i] != l[i] as i128) || a[1 + l.len()] != 8 * l.len() as i128 - 1 { return (Some("building from raw entries must reproduce them"), None, true); }
                (None, None, l.len() > 1)
            }
            _ => (None, None, false),
        },
        "C15" => match c[0] {
            10 => {
                if a.len() != 2 { return (Some("tss_segment panicked"), None, true); }
                let (lo, hi, p) = (a[0] as u64, a[1] as u64, c[1]);
                let base = ((lo >> 16) & 0xff_ffff) | (((lo >> 56) & 0xff) << 24) | ((hi & 0xffff_ffff) << 32);
                let limit = (lo & 0xffff) | (((lo >> 48) & 0xf) << 16);
                if base != p { return (Some("TSS descriptor base must be the full 64-bit address"), None, true); }
                if limit != 0x67 { return (Some("TSS descriptor limit must be 0x67"), None, true); }
                if (lo >> 40) & 0xf != 9 || (lo >> 44) & 1 != 0 { return (Some("TSS descriptor type must be available 64-bit TSS (system, type 9)"), None, true); }
                if (lo >> 45) & 3 != 0 || (lo >> 47) & 1 != 1 { return (Some("TSS descriptor must be present, ring 0"), None, true); }
                if (lo >> 52) & 0xf != 0 || hi >> 32 != 0 { return (Some("TSS descriptor reserved/AVL/G bits must be zero"), None, true); }
                (None, None, p >> 24 != 0)
            }
            14 => {
                if a.iter().any(|x| *x == -1) { return (Some("tss_segment (safe constructor) panicked"), None, true); }
                if a != [0, 0] { return (Some("tss_segment(&tss) must be the descriptor of the TSS's address (base = address, limit 0x67) whatever the TSS contains"), None, true); }
                (None, None, c[1] != 0x68)
            }
            11 => {
                let linux: [i128; 6] = [0x00cf93000000ffff, 0x00cf9b000000ffff, 0x00af9b000000ffff, 0x00cff3000000ffff, 0x00cffb000000ffff, 0x00affb000000ffff];
                if a.len() != 10 || a[..6] != linux { return (Some("predefined descriptors must decode to the segment kind, L/D bits, DPL and present bit their names state"), None, true); }
                if a[6] != linux[2] || a[7] != linux[0] || a[8] != linux[3] || a[9] != linux[5] { return (Some("descriptor constructors must use the matching preset"), None, true); }
                (None, None, true)
            }
            12 => {
                if a != [((c[2] >> 45) & 3) as i128] { return (Some("dpl() must return bits 45-46"), None, true); }
                (None, None, (c[2] >> 45) & 3 != 0)
            }
            13 => {
                let exp: [i128; 12] = [0, 4, 0x1c, 0x24, 0x5c, 0x64, 0x66, 0x68, 0x68, 0, 2, 10];
                if a != exp { return (Some("TSS / DescriptorTablePointer must have exactly the hardware layout"), None, true); }
                (None, None, true)
            }
            _ => (None, None, false),
        },
        "C12" => match c[0] {
            20 => {
                let v = c[1] & 0xff;
                let refused = [8u64, 10, 11, 12, 13, 14, 15, 17, 18, 21, 22, 23, 24, 25, 26, 27, 29, 30, 31].contains(&v);
                if refused { return (if a == [-1] { None } else { Some("indexing must refuse reserved vectors and vectors whose handler signature differs") }, None, true); }
                if a != [16 * v as i128] { return (Some("the descriptor for vector v must occupy bytes 16v..16v+16"), None, true); }
                (None, None, v < 32 || v == 255)
            }
            21 => {
                let named = [0u64, 1, 2, 3, 4, 5, 6, 7, 8, 10, 11, 12, 13, 14, 16, 17, 18, 19, 20, 21, 28, 29, 30];
                if !named.contains(&c[1]) { return (None, None, false); }
                if a != [16 * c[1] as i128] { return (Some("a named exception field must sit at bytes 16v..16v+16 of its vector"), None, true); }
                (None, None, true)
            }
            22 => {
                let (form, s, e) = (c[1], (c[2] & 0xff) as i128, (c[3] & 0xff) as i128);
                let (sk, ek) = match form { 0..=8 => (form / 3, form % 3), 9 => (0, 1), 10 => (0, 2), 11 => (0, 0), 12 => (2, 1), 13 => (2, 0), _ => (2, 2) };
                let lower = match sk { 0 => s, 1 => s + 1, _ => 0 };
                let upper = match ek { 0 => e + 1, 1 => e, _ => 256 };
                if lower < 32 || lower > upper { return (if a == [-1] { None } else { Some("range access must refuse anything starting below vector 32 (and inverted ranges)") }, None, true); }
                if a != [16 * lower, upper - lower] { return (Some("a range must denote gates lower..upper at bytes 16*lower"), None, true); }
                (None, None, lower == 32 || upper == 256 || lower == upper)
            }
            23 => {
                // independent decode of every observed gate against the expected field values
                let mut k = 0;
                let mut started = false;
                let (mut off, mut sel, mut ist, mut ty, mut dpl, mut p) = (0u64, 0u64, 0u64, 0xEu64, 0u64, 0u64);
                let mut nt = false;
                for ch in c[2..].chunks(2) {
                    if ch.len() < 2 { break; }
                    let (op, arg) = (ch[0], ch[1]);
                    let mut expect_panic = false;
                    match op {
                        0 => { if !crate::gen_addr::is_canonical(arg) { expect_panic = true; } else { started = true; off = arg; sel = c[1]; ist = 0; ty = 0xE; dpl = 0; p = 1; } }
                        _ if !started => continue,
                        1 => p = (arg != 0) as u64,
                        2 => ty = if arg != 0 { 0xE } else { 0xF },
                        3 => { if arg > 3 { expect_panic = true; } else { dpl = arg; } }
                        4 => { if arg <= 6 { ist = arg + 1; } else if arg == 0xffff { return (None, None, false); } else { expect_panic = true; } }
                        _ => sel = arg & 0xffff,
                    }
                    if k >= a.len() { return (Some("answer too short"), None, true); }
                    if a[k] == -1 { return (if expect_panic { None } else { Some("entry setter panicked on valid input") }, None, true); }
                    if expect_panic { return (Some("invalid privilege level / IST index >= 7 / non-canonical handler must be refused"), None, true); }
                    if k + 3 > a.len() { return (Some("truncated observation"), None, true); }
                    let (go, gs, gi, gz, gt, gd, gp, gr) = decode_gate(a[k] as u64, a[k + 1] as u64);
                    if go != off || a[k + 2] != off as i128 { return (Some("handler address must be encoded in the gate's three offset fields and read back unchanged"), None, true); }
                    if gs != sel { return (Some("gate selector must be the current code segment (or the one set)"), None, true); }
                    if gi != ist { return (Some("IST field must be index+1 (0 = no stack switch) and only change with set_stack_index"), None, true); }
                    if gt != ty { return (Some("gate type must be interrupt gate 0xE (trap gate 0xF when interrupts are not disabled)"), None, true); }
                    if gd != dpl { return (Some("DPL field must only change with set_privilege_level"), None, true); }
                    if gp != p { return (Some("present bit must only change with set_present / set_handler_addr"), None, true); }
                    if gz != 0 || gr != 0 { return (Some("must-be-zero / reserved gate bits set"), None, true); }
                    nt |= op != 0;
                    k += 3;
                }
                (None, None, nt)
            }
            24 => { if a != [256, 4096, 16, 0xE00i128 << 32, 0] { return (Some("an untouched or reset table must be 256 non-present gates with the must-be-one type bits, 4096 bytes"), None, true); } (None, None, true) }
            25 => { if a != [4095, 0] { return (Some("loading must hand the CPU the table's own address with limit 4095"), None, true); } (None, None, true) }
            _ => (None, None, false),
        },
        "C19" => match c[0] {
            1 => {
                let (i, rp) = (c[1] & 0xffff, c[2]);
                if rp > 3 { return (if a == [-1] { None } else { Some("privilege level above 3 accepted") }, None, true); }
                if i >= 8192 { return (None, None, false); }
                if a != [((i << 3) | rp) as i128, i as i128, rp as i128] { return (Some("SegmentSelector::new(i, r) must have index i and RPL r"), None, true); }
                (None, None, i == 0 || i == 8191 || rp != 0)
            }
            2 => {
                let (raw, rp) = (c[1] & 0xffff, c[2]);
                if rp > 3 { return (if a == [-1] { None } else { Some("privilege level above 3 accepted") }, None, true); }
                if a != [(raw >> 3) as i128, (raw & 3) as i128, ((raw & !3) | rp) as i128] { return (Some("selector index = bits 3-15, RPL = bits 0-1, set_rpl changes only the RPL"), None, true); }
                (None, None, raw & 4 != 0 || raw & 3 != rp)
            }
            3 => { let v = c[1] & 0xffff; if v < 4 { if a != [v as i128] { return (Some("PrivilegeLevel::from_u16 must be the identity on 0..3"), None, true); } } else if a != [-1] { return (Some("PrivilegeLevel::from_u16 must reject values above 3"), None, true); } (None, None, v < 8) }
            4 => {
                let (bits, n, cd, sz, fl) = (c[1], c[2], c[3], c[4], c[5] & 0x2BFF);
                if n > 3 || cd > 3 || sz > 3 { return (if a == [-1] { None } else { Some("invalid register number accepted") }, None, true); }
                const VALID: u64 = 0xFFFF_2BFF;
                let v = bits & VALID;
                let (cs, ss) = (16 + 4 * n, 18 + 4 * n);
                let exp: Vec<i128> = vec![
                    if bits & !VALID == 0 { bits as i128 } else { -2 },
                    v as i128, (v & 0x2BFF) as i128, ((v >> cs) & 3) as i128, ((v >> ss) & 3) as i128,
                    ((v & !(3 << cs)) | (cd << cs)) as i128, ((v & !(3 << ss)) | (sz << ss)) as i128,
                    (v | fl) as i128, (v & !fl) as i128, (v ^ fl) as i128, (v | fl) as i128, (v & !fl) as i128,
                ];
                if a != exp.as_slice() { return (Some("DR7 condition/size fields must round-trip independently of each other and of the flag bits; from_bits accepts exactly the valid bits"), None, true); }
                (None, None, bits & !VALID != 0 || v >> 16 != 0)
            }
            5 => { let n = c[1] & 0xff; if a != [if n < 4 { n as i128 } else { -2 }] { return (Some("debug register number must be 0..3"), None, true); } (None, None, n < 5) }
            6 => {
                let b = c[1];
                let exp = [if b < 4 { b as i128 } else { -2 }, if b < 4 { b as i128 } else { -2 }, match b { 1 => 0, 2 => 1, 8 => 2, 4 => 3, _ => -2 }];
                if a != exp { return (Some("breakpoint condition/size encodings"), None, true); }
                (None, None, b < 9)
            }
            7 => { let p = c[1] & 0xffff; if a != [if p < 4096 { p as i128 } else { -2 }] { return (Some("Pcid::new must accept exactly values below 4096"), None, true); } (None, None, p >= 4094 && p <= 4097 || p == 0) }
            8 => {
                let v = c[1] & 0xff;
                let valid = [0u64, 1, 2, 3, 4, 5, 6, 7, 8, 10, 11, 12, 13, 14, 16, 17, 18, 19, 20, 21, 28, 29, 30].contains(&v);
                if a != [if valid { v as i128 } else { -2 }] { return (Some("ExceptionVector::try_from must accept exactly the architectural exception numbers and return the same number"), None, true); }
                (None, None, v < 33)
            }
            9 => { let b = c[1] & 0xff; let valid = [0u64, 1, 4, 5, 6, 7].contains(&b); if a != [if valid { b as i128 } else { -2 }] { return (Some("PAT memory type encodings"), None, true); } (None, None, b < 9) }
            10 => {
                let v = c[1];
                let t = v & 0xffff;
                let exp = [if v <= 0xffff { v as i128 } else { -2 }, t as i128, (t & 1) as i128, match (t >> 1) & 3 { 0 => 0, 2 => 2, _ => 1 }, (t >> 3) as i128, (t == 0) as i128];
                if a != exp { return (Some("selector error code fields are bits 0, 1-2, 3-15"), None, true); }
                (None, None, t < 16 || v > 0xffff)
            }
            11 => { let n = c[1]; if n > 3 { return (if a == [-1] { None } else { Some("bad register accepted") }, None, true); } if a != [1i128 << n, 1i128 << (2 * n), 1i128 << (2 * n + 1)] { return (Some("DR6 trap / DR7 enable bit of breakpoint n"), None, true); } (None, None, true) }
            _ => (None, None, false),
        },
        _ => (None, None, false),
    }
}

fn parse_ans(s: &str) -> Vec<i128> {
    s.split_ascii_whitespace()
        .map(|t| if let Some(r) = t.strip_prefix('-') { -(i128::from_str_radix(r, 16).unwrap()) } else { i128::from_str_radix(t, 16).unwrap() })
        .collect()
}

pub fn oracle(prop: &str) {
    use std::io::BufRead;
    let args: Vec<String> = std::env::args().collect();
    let cases = std::io::BufReader::new(std::fs::File::open(&args[3]).unwrap());
    let answers = std::io::BufReader::new(std::fs::File::open(&args[4]).unwrap());
    let (mut evals, mut fails, mut panics) = (0u64, 0u64, 0u64);
    let mut distinct: HashSet<u64> = HashSet::new();
    let mut hist: std::collections::BTreeMap<u64, u64> = Default::default();
    let mut known_seen: std::collections::BTreeMap<&'static str, u64> = Default::default();
    for (ln, (cl, al)) in cases.lines().zip(answers.lines()).enumerate() {
        let (cl, al) = (cl.unwrap(), al.unwrap());
        let c = parse_line(&cl);
        let a = parse_ans(&al);
        evals += 1;
        *hist.entry(c[0]).or_default() += 1;
        if a.contains(&-1) { panics += 1; }
        let (f, k, nt) = judge(prop, &c, &a);
        if nt {
            use std::hash::{Hash, Hasher};
            let mut h = std::collections::hash_map::DefaultHasher::new();
            c.hash(&mut h);
            distinct.insert(h.finish());
        }
        if let Some(id) = k {
            let n = known_seen.entry(id).or_default();
            *n += 1;
            if *n <= 3 { println!("KNOWN {} | {} | {} | {}", id, ln + 1, &cl[..cl.len().min(300)], &al[..al.len().min(300)]); }
        }
        if let Some(clause) = f {
            fails += 1;
            if fails <= 50 { println!("FAIL {} | {} | {} | {}", ln + 1, cl, al, clause); }
        }
    }
    let h: Vec<String> = hist.iter().map(|(k, v)| format!("\"fn{}\":{}", k, v)).collect();
    let kn: Vec<String> = known_seen.iter().map(|(k, v)| format!("\"{}\":{}", k, v)).collect();
    println!("SUMMARY {{\"evaluations\":{},\"oracle_failures\":{},\"distinct_nontrivial\":{},\"answers_with_panic\":{},\"known_finding_hits\":{{{}}},\"by_function\":{{{}}}}}", evals, fails, distinct.len(), panics, kn.join(","), h.join(","));
}
