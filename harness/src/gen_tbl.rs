//! Generators and oracles for the table/codec properties C08, C12, C14, C15.
use crate::gen_addr::{any_u64, boundary, phys};
use crate::util::*;
use std::collections::HashSet;
use std::io::Write;

fn emit(out: &mut impl Write, c: &[u64]) {
    writeln!(out, "{}", fmt_case(c)).unwrap();
}
const PTF_MASK: u64 = 0xfff0_0000_0000_0fff; // bits 0-11 and 52-63 (the property's flag domain)

fn flagset(rng: &mut Rng) -> u64 {
    match rng.below(6) {
        0 => 1u64 << rng.pick(&[0u64, 1, 2, 3, 4, 5, 6, 7, 8, 9, 10, 11, 52, 53, 54, 55, 56, 57, 58, 59, 60, 61, 62, 63]),
        1 => PTF_MASK,
        2 => 0,
        3 => (rng.next() & PTF_MASK) | 1,
        _ => rng.next() & PTF_MASK,
    }
}
fn aligned_phys(rng: &mut Rng) -> u64 {
    match rng.below(5) {
        0 => 0x1000 << rng.below(40),
        1 => 0x000f_ffff_ffff_f000,
        2 => (1u64 << (12 + rng.below(40))) | 0x1000,
        _ => phys(rng) & !0xfff,
    }
}

pub fn gen(prop: &str, seed: u64, thorough: bool, out: &mut impl Write) {
    let mut rng = Rng::new(seed ^ u64::from_str_radix(&prop[1..], 10).unwrap() * 0x7654321);
    let rng = &mut rng;
    match prop {
        "C08" => {
            emit(out, &[4]);
            let n = if thorough { 2_000_000 } else { 60_000 };
            for _ in 0..n / 4 {
                emit(out, &[1, if rng.chance(1, 2) { any_u64(rng) } else { aligned_phys(rng) | flagset(rng) }]);
                emit(out, &[5, any_u64(rng)]);
            }
            for _ in 0..n {
                // programs of setters, mostly valid arguments
                let len = 1 + rng.below(8);
                let mut c = vec![2, if rng.chance(2, 3) { 0 } else { aligned_phys(rng) | flagset(rng) }];
                for _ in 0..len {
                    let op = rng.below(4);
                    let a = match rng.below(12) {
                        0 => aligned_phys(rng) | (1 << rng.below(12)), // misaligned -> set_addr must panic
                        1 => boundary(rng),
                        _ => aligned_phys(rng),
                    };
                    let f = if rng.chance(1, 25) { flagset(rng) | 0x1000 } else if rng.chance(1, 40) { rng.next() } else { flagset(rng) };
                    c.extend([op, a, f]);
                }
                emit(out, &c);
            }
            // tables: every slot through every write path
            for path in 0..3u64 {
                let mut c = vec![3];
                for i in 0..512u64 {
                    c.extend([path, i, (i + 1) * 0x1000 | 1 | (path << 52)]);
                }
                emit(out, &c);
                for i in 0..512u64 {
                    emit(out, &[3, path, i, rng.next() | 1]);
                }
            }
            emit(out, &[3]);
            emit(out, &[3, 0, 512, 1]);
            emit(out, &[3, 1, 512, 1]);
            emit(out, &[3, 2, 512, 1]);
            let tabs = if thorough { 20_000 } else { 600 };
            for _ in 0..tabs {
                let mut c = vec![3];
                for _ in 0..rng.below(20) {
                    c.extend([rng.below(3), if rng.chance(1, 3) { rng.pick(&[0u64, 1, 255, 256, 510, 511]) } else { rng.below(512) }, any_u64(rng)]);
                }
                emit(out, &c);
            }
        }
        _ => panic!("gen_tbl: unknown property"),
    }
}

/// (failing clause | None, known-finding id | None, non-trivial)
fn judge(prop: &str, c: &[u64], a: &[i128]) -> (Option<&'static str>, Option<&'static str>, bool) {
    match prop {
        "C08" => match c[0] {
            1 => {
                // observe(e) = raw, is_unused, flags, addr, frame
                let e = c[1];
                if a.len() != 5 { return (Some("entry getters panicked"), None, true); }
                if a[0] != e as i128 { return (Some("raw entry changed by reading"), None, true); }
                if a[1] != (e == 0) as i128 { return (Some("is_unused must hold exactly for the all-zero entry"), None, true); }
                if (a[4] >= 0) != (e & 1 == 1) { return (Some("frame() must succeed exactly when PRESENT is set"), None, true); }
                if a[3] != (e & 0x000f_ffff_ffff_f000) as i128 { return (Some("addr() must be bits 12-51"), None, true); }
                if a[4] >= 0 && a[4] != a[3] { return (Some("frame() must be the frame at addr()"), None, true); }
                (None, None, e & 1 == 1 || e == 0)
            }
            2 => {
                // replay the program against "what was stored" (stored address, stored flags)
                let mut idx = 5; // after observe(e0)
                let mut stored_addr: Option<u64> = None; // unknown for an arbitrary initial raw entry
                let mut known: Option<&'static str> = None;
                let mut nt = false;
                let mut pos = 2;
                if c[1] == 0 { stored_addr = Some(0); }
                while pos + 2 < c.len() + 0 && pos + 3 <= c.len() {
                    let (op, ad, fl) = (c[pos], c[pos + 1], c[pos + 2]);
                    pos += 3;
                    let in_domain = fl & !PTF_MASK == 0;
                    let declared = fl & !0xfff0_0000_0000_1fffu64 == 0;
                    let validaddr = ad < (1 << 52);
                    let expect_panic = !declared || ((op == 0 || op == 1) && (!validaddr || ad & 0xfff != 0));
                    if idx >= a.len() { return (Some("answer shorter than program"), None, true); }
                    if a[idx] == -1 {
                        nt = true;
                        if !expect_panic { return (Some("setter panicked on an aligned address and declared flags"), None, true); }
                        return (None, known, nt);
                    }
                    if expect_panic && (op == 0 || op == 1 || !declared) { return (Some("set_addr/set_frame must reject a misaligned address (and undeclared flag bits must be rejected by from_bits)"), None, true); }
                    if idx + 5 > a.len() { return (Some("truncated observation"), None, true); }
                    let (rawv, unused, flags, addr, frame) = (a[idx] as u64, a[idx + 1], a[idx + 2] as u64, a[idx + 3], a[idx + 4]);
                    idx += 5;
                    if !in_domain { stored_addr = None; continue; } // PAT_HUGE_PAGE as a flag: outside the property's flag domain
                    match op {
                        0 | 1 => {
                            stored_addr = Some(ad);
                            if rawv != ad | fl { return (Some("set_addr must store exactly address | flags (hardware layout)"), None, true); }
                        }
                        2 => {
                            if let Some(sa) = stored_addr { if rawv != sa | fl { return (Some("set_flags must keep the address and store exactly the flags"), None, true); } }
                        }
                        _ => { stored_addr = Some(0); if rawv != 0 { return (Some("set_unused must clear the entry"), None, true); } }
                    }
                    if unused != (rawv == 0) as i128 { return (Some("is_unused must hold exactly for the all-zero entry"), None, true); }
                    if (frame >= 0) != (rawv & 1 == 1) { return (Some("frame() must succeed exactly when PRESENT is set"), None, true); }
                    if let Some(sa) = stored_addr {
                        if op != 3 {
                            if addr != sa as i128 { return (Some("addr() must return the stored address"), None, true); }
                            if flags & PTF_MASK != fl { return (Some("flags() must return the stored flags"), None, true); }
                            if flags != fl {
                                // the only tolerated difference: bit 12 of the stored address read back as PAT_HUGE_PAGE
                                if flags == fl | 0x1000 && sa & 0x1000 != 0 { known = Some("F7a"); } else { return (Some("flags() returned bits that were not stored"), None, true); }
                            }
                            nt |= sa != 0 && fl != 0;
                        }
                    }
                }
                (None, known, nt)
            }
            3 => {
                if a.len() == 1 && a[0] == -1 {
                    let oob = c[1..].chunks(3).any(|ch| ch.len() == 3 && ch[1] >= 512);
                    return (if oob { None } else { Some("table access panicked for an index below 512") }, None, true);
                }
                if a.contains(&-77) { return (Some("access paths ([usize], [PageTableIndex], iter, iter_mut) disagree about a slot, or raw bytes are not 512 little-endian words in index order"), None, true); }
                if a.len() != 515 { return (Some("table dump has wrong length"), None, true); }
                let mut exp = vec![0u64; 512];
                for ch in c[1..].chunks(3) { if ch.len() == 3 { exp[ch[1] as usize] = ch[2]; } }
                for i in 0..512 { if a[i] != exp[i] as i128 { return (Some("a write through an access path landed in the wrong slot (byte 8i..8i+8 must hold entry i)"), None, true); } }
                if a[512] != exp.iter().all(|w| *w == 0) as i128 { return (Some("is_empty must hold exactly when all bytes are zero"), None, true); }
                if a[513] != 1 || a[514] != 0 { return (Some("zero() must leave an all-zero, empty table"), None, true); }
                (None, None, c.len() > 1)
            }
            4 => {
                let exp: [i128; 7] = [1, 4096, 0, 4096, 4096, 8, 8];
                if a != exp { return (Some("PageTable must be one 4 KiB-aligned 4 KiB block of zero bytes when new; entries are 8 bytes"), None, true); }
                (None, None, true)
            }
            5 => {
                let w = c[1];
                for j in 0..8 { if a.get(j).copied() != Some(((w >> (8 * j)) & 0xff) as i128) { return (Some("entry is not stored little-endian"), None, true); } }
                (None, None, true)
            }
            _ => (None, None, false),
        },
        _ => (None, None, false),
    }
}

fn parse_ans(s: &str) -> Vec<i128> {
    s.split_ascii_whitespace()
        .map(|t| if let Some(r) = t.strip_prefix('-') { -(i128::from_str_radix(r, 16).unwrap()) } else { i128::from_str_radix(t, 16).unwrap() })
        .collect()
}

pub fn oracle(prop: &str) {
    use std::io::BufRead;
    let args: Vec<String> = std::env::args().collect();
    let cases = std::io::BufReader::new(std::fs::File::open(&args[3]).unwrap());
    let answers = std::io::BufReader::new(std::fs::File::open(&args[4]).unwrap());
    let (mut evals, mut fails, mut panics) = (0u64, 0u64, 0u64);
    let mut distinct: HashSet<u64> = HashSet::new();
    let mut hist: std::collections::BTreeMap<u64, u64> = Default::default();
    let mut known_seen: std::collections::BTreeMap<&'static str, u64> = Default::default();
    for (ln, (cl, al)) in cases.lines().zip(answers.lines()).enumerate() {
        let (cl, al) = (cl.unwrap(), al.unwrap());
        let c = parse_line(&cl);
        let a = parse_ans(&al);
        evals += 1;
        *hist.entry(c[0]).or_default() += 1;
        if a.contains(&-1) { panics += 1; }
        let (f, k, nt) = judge(prop, &c, &a);
        if nt {
            use std::hash::{Hash, Hasher};
            let mut h = std::collections::hash_map::DefaultHasher::new();
            c.hash(&mut h);
            distinct.insert(h.finish());
        }
        if let Some(id) = k {
            let n = known_seen.entry(id).or_default();
            *n += 1;
            if *n <= 3 { println!("KNOWN {} | {} | {} | {}", id, ln + 1, &cl[..cl.len().min(300)], &al[..al.len().min(300)]); }
        }
        if let Some(clause) = f {
            fails += 1;
            if fails <= 50 { println!("FAIL {} | {} | {} | {}", ln + 1, cl, al, clause); }
        }
    }
    let h: Vec<String> = hist.iter().map(|(k, v)| format!("\"fn{}\":{}", k, v)).collect();
    let kn: Vec<String> = known_seen.iter().map(|(k, v)| format!("\"{}\":{}", k, v)).collect();
    println!("SUMMARY {{\"evaluations\":{},\"oracle_failures\":{},\"distinct_nontrivial\":{},\"answers_with_panic\":{},\"known_finding_hits\":{{{}}},\"by_function\":{{{}}}}}", evals, fails, distinct.len(), panics, kn.join(","), h.join(","));
}
