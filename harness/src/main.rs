#![feature(step_trait)]
#![feature(abi_x86_interrupt)]
#![allow(clippy::all)]
//! Correspondence harness: runs the real x86_64 crate (path = /repo, built from the working
//! tree on every check with --cfg x86_64_verif) on cases given as integer lists.
//!   harness run <engine>            stdin: cases, stdout: answers
//!   harness gen <prop> <seed> <tier>  stdout: cases
//!   harness oracle <prop>           stdin: "case | answer" lines, stdout: failing clauses
mod consts_gen;
mod eng_addr;
mod eng_codec;
mod eng_mach;
mod eng_gh;
mod eng_map;
mod eng_rec;
mod eng_pte;
mod eng_tbl;
mod gen_addr;
mod gen_mach;
mod gen_gh;
mod gen_map;
mod gen_rec;
mod gen_tbl;
mod physmem;
mod softcpu;
mod util;

use util::*;

/// the number inside an `Msr` (its field is private): taken from its Debug output "Msr(<n>)"
#[allow(dead_code)]
pub fn msr_number(m: &x86_64::registers::model_specific::Msr) -> u64 {
    let s = format!("{:?}", m);
    s.trim_start_matches("Msr(").trim_end_matches(')').parse().unwrap()
}

fn main() {
    let args: Vec<String> = std::env::args().collect();
    if args.get(1).map(|s| s.as_str()) != Some("gen") {
        silence_panics();
    }
    match args.get(1).map(|s| s.as_str()) {
        Some("run") => {
            let eng = args[2].as_str();
            let f: fn(&[u64]) -> Vec<i128> = match eng {
                "addr" => eng_addr::run,
                "pte" => eng_pte::run,
                "mach" => eng_mach::run,
                "tbl" => eng_tbl::run,
                "codec" => eng_codec::run,
                "map" => eng_map::run,
                "tree" => eng_map::run_projected,
                "rec" => eng_rec::run,
                "gh" => eng_gh::run,
                _ => panic!("unknown engine"),
            };
            for_each_line(|l| fmt_out(&f(&parse_line(l))));
        }
        Some("gen") => {
            let prop = args[2].as_str();
            let seed: u64 = args[3].parse().unwrap();
            let tier = args[4].as_str();
            let thorough = tier == "thorough";
            let stdout = std::io::stdout();
            let mut out = std::io::BufWriter::with_capacity(1 << 16, stdout.lock());
            match prop {
                "C03" | "C04" | "C05" | "C06" | "C07" => gen_addr::gen(prop, seed, thorough, &mut out),
                "C08" | "C12" | "C14" | "C15" | "C19" => gen_tbl::gen(prop, seed, thorough, &mut out),
                "C11" | "C16" | "C17" | "C18" => gen_mach::gen(prop, seed, thorough, &mut out),
                "C01" | "C02" | "C09" | "C10" => gen_map::gen(prop, seed, thorough, &mut out),
                "C20" => gen_rec::gen(seed, thorough, &mut out),
                "C20M" => gen_map::gen("C20", seed, thorough, &mut out),
                "C13" => gen_gh::gen(seed, thorough, &mut out),
                _ => panic!("unknown property"),
            }
        }
        Some("oracle") => {
            let prop = args[2].as_str();
            match prop {
                "C03" | "C04" | "C05" | "C06" | "C07" => gen_addr::oracle(prop),
                "C08" | "C12" | "C14" | "C15" | "C19" => gen_tbl::oracle(prop),
                "C11" | "C16" | "C17" | "C18" => gen_mach::oracle(prop),
                "C01" | "C02" | "C09" | "C10" => gen_map::oracle(prop),
                "C11T" => gen_map::oracle("C11"),
                "C20M" => gen_map::oracle("C20"),
                "C20" => gen_rec::oracle(),
                "C13" => gen_gh::oracle(),
                _ => panic!("unknown property"),
            }
        }
        Some("dumpconsts") => {
            for (n, v) in consts_gen::consts() {
                println!("{} {}", n, v);
            }
        }
        Some("selftest") => {
            use x86_64::instructions::port::Port;
            use x86_64::registers::control::{Cr3, Cr4, Cr4Flags};
            use x86_64::registers::model_specific::{Efer, Msr};
            softcpu::install_once();
            let c = softcpu::cpu();
            c.reset();
            c.cr[3] = 0x1005;
            x86_64::instructions::interrupts::disable();
            println!("if={}", x86_64::instructions::interrupts::are_enabled());
            x86_64::instructions::interrupts::enable();
            println!("if={}", x86_64::instructions::interrupts::are_enabled());
            unsafe {
                let mut p: Port<u16> = Port::new(0x3f8);
                p.write(0xabcd);
                println!("in={:x}", p.read());
                let mut m = Msr::new(0x1234);
                m.write(0x1122334455667788);
                println!("msr={:x}", m.read());
                println!("efer={:?}", Efer::read());
                println!("cr3={:?}", Cr3::read());
                Cr4::write(Cr4Flags::PCID);
                x86_64::instructions::tlb::flush(x86_64::VirtAddr::new(0x7000));
                x86_64::instructions::tlb::flush_all();
                x86_64::instructions::tlb::flush_pcid(x86_64::instructions::tlb::InvPcidCommand::Single(x86_64::instructions::tlb::Pcid::new(5).unwrap()));
                let gdt = Box::leak(Box::new(x86_64::structures::gdt::GlobalDescriptorTable::<8>::empty()));
                gdt.load_unsafe();
                x86_64::instructions::tables::load_tss(x86_64::structures::gdt::SegmentSelector(0x28));
                x86_64::registers::xcontrol::XCr0::write_raw(7);
                println!("xcr0={:x}", x86_64::registers::xcontrol::XCr0::read_raw());
                x86_64::instructions::interrupts::enable_and_hlt();
                use x86_64::instructions::segmentation::{Segment, CS, SS, GS};
                SS::set_reg(x86_64::structures::gdt::SegmentSelector(0x1234));
                CS::set_reg(x86_64::structures::gdt::SegmentSelector(0x4321));
                GS::swap();
                let inv = x86_64::instructions::tlb::Invlpgb::verif_new(10, true, 100);
                inv.build().flush();
                inv.tlbsync();
            }
            for t in c.take_log() {
                println!("{:?}", t);
            }
            println!("unknown={}", c.unknown);
        }
        _ => {
            eprintln!("usage: harness run|gen|oracle ...");
            std::process::exit(2);
        }
    }
}
