#![feature(step_trait)]
#![allow(clippy::all)]
//! Correspondence harness: runs the real x86_64 crate (path = /repo, built from the working
//! tree on every check with --cfg x86_64_verif) on cases given as integer lists.
//!   harness run <engine>            stdin: cases, stdout: answers
//!   harness gen <prop> <seed> <tier>  stdout: cases
//!   harness oracle <prop>           stdin: "case | answer" lines, stdout: failing clauses
mod eng_addr;
mod eng_pte;
mod gen_addr;
mod gen_tbl;
mod util;

use util::*;

fn main() {
    let args: Vec<String> = std::env::args().collect();
    silence_panics();
    match args.get(1).map(|s| s.as_str()) {
        Some("run") => {
            let eng = args[2].as_str();
            let f: fn(&[u64]) -> Vec<i128> = match eng {
                "addr" => eng_addr::run,
                "pte" => eng_pte::run,
                _ => panic!("unknown engine"),
            };
            for_each_line(|l| fmt_out(&f(&parse_line(l))));
        }
        Some("gen") => {
            let prop = args[2].as_str();
            let seed: u64 = args[3].parse().unwrap();
            let tier = args[4].as_str();
            let thorough = tier == "thorough";
            let stdout = std::io::stdout();
            let mut out = std::io::BufWriter::with_capacity(1 << 16, stdout.lock());
            match prop {
                "C03" | "C04" | "C05" | "C06" | "C07" => gen_addr::gen(prop, seed, thorough, &mut out),
                "C08" | "C12" | "C14" | "C15" => gen_tbl::gen(prop, seed, thorough, &mut out),
                _ => panic!("unknown property"),
            }
        }
        Some("oracle") => {
            let prop = args[2].as_str();
            match prop {
                "C03" | "C04" | "C05" | "C06" | "C07" => gen_addr::oracle(prop),
                "C08" | "C12" | "C14" | "C15" => gen_tbl::oracle(prop),
                _ => panic!("unknown property"),
            }
        }
        _ => {
            eprintln!("usage: harness run|gen|oracle ...");
            std::process::exit(2);
        }
    }
}
