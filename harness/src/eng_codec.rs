//! Small-codec engine (C19). Mirrors coq/theories/Codec/Run.v (`run_codec`).
use crate::util::*;
use core::convert::TryFrom;
use x86_64::instructions::tlb::Pcid;
use x86_64::registers::debug::{BreakpointCondition, BreakpointSize, DebugAddressRegisterNumber, Dr6Flags, Dr7Flags, Dr7Value};
use x86_64::registers::model_specific::PatMemoryType;
use x86_64::structures::gdt::SegmentSelector;
use x86_64::structures::idt::{DescriptorTable, ExceptionVector, SelectorErrorCode};
use x86_64::PrivilegeLevel;

fn run_inner(c: &[u64]) -> Vec<i128> {
    match c {
        [1, i, rp] => {
            let s = SegmentSelector::new(*i as u16, PrivilegeLevel::from_u16(*rp as u16));
            let mut v = vec![s.0 as i128, s.index() as i128];
            v.extend(r(catch(|| s.rpl() as u8 as u64)));
            v
        }
        [2, raw, rp] => {
            let s = SegmentSelector(*raw as u16);
            let p = PrivilegeLevel::from_u16(*rp as u16);
            let mut v = vec![s.index() as i128];
            v.extend(r(catch(|| s.rpl() as u8 as u64)));
            v.extend(r(catch(|| { let mut t = s; t.set_rpl(p); t.0 as u64 })));
            v
        }
        [3, v] => r(catch(|| PrivilegeLevel::from_u16(*v as u16) as u8 as u64)),
        [4, bits, n, cd, sz, fl] => {
            let n = DebugAddressRegisterNumber::new(u8::try_from(*n).unwrap()).unwrap();
            let cd = BreakpointCondition::from_bits(*cd).unwrap();
            let sz = BreakpointSize::from_bits(*sz).unwrap();
            let f = Dr7Flags::from_bits_truncate(*fl);
            let v = Dr7Value::from_bits_truncate(*bits);
            let mut out = o(Dr7Value::from_bits(*bits).map(|x| x.bits()));
            out.extend([v.bits() as i128, v.flags().bits() as i128, v.condition(n) as u8 as i128, v.size(n) as u8 as i128]);
            out.extend(r(catch(|| { let mut t = v; t.set_condition(n, cd); t.bits() })));
            out.extend(r(catch(|| { let mut t = v; t.set_size(n, sz); t.bits() })));
            let mut t = v; t.insert_flags(f); out.push(t.bits() as i128);
            let mut t = v; t.remove_flags(f); out.push(t.bits() as i128);
            let mut t = v; t.toggle_flags(f); out.push(t.bits() as i128);
            let mut t = v; t.set_flags(f, true); out.push(t.bits() as i128);
            let mut t = v; t.set_flags(f, false); out.push(t.bits() as i128);
            // From<Dr7Flags> must agree with from_bits_truncate
            if Dr7Value::from(f).bits() != f.bits() { out.push(-77); }
            out
        }
        [5, n] => {
            let x = DebugAddressRegisterNumber::new(*n as u8);
            o(x.map(|d| d.get() as u64))
        }
        [6, b] => {
            let mut v = o(BreakpointCondition::from_bits(*b).map(|x| x as u8 as u64));
            v.extend(o(BreakpointSize::from_bits(*b).map(|x| x as u8 as u64)));
            v.extend(o(BreakpointSize::new(*b as usize).map(|x| x as u8 as u64)));
            v
        }
        [7, p] => o(Pcid::new(*p as u16).ok().map(|x| x.value() as u64)),
        [8, v] => o(ExceptionVector::try_from(*v as u8).ok().map(|x| x as u8 as u64)),
        [9, b] => o(PatMemoryType::from_bits(*b as u8).map(|x| x.bits() as u64)),
        [10, v] => {
            let t = SelectorErrorCode::new_truncate(*v);
            let mut out = o(SelectorErrorCode::new(*v).map(|x| unsafe { core::mem::transmute::<SelectorErrorCode, u64>(x) }));
            out.push(unsafe { core::mem::transmute::<SelectorErrorCode, u64>(t) } as i128);
            out.push(t.external() as i128);
            out.push(match t.descriptor_table() { DescriptorTable::Gdt => 0, DescriptorTable::Idt => 1, DescriptorTable::Ldt => 2 });
            out.push(t.index() as i128);
            out.push(t.is_null() as i128);
            out
        }
        [11, n] => {
            let n = DebugAddressRegisterNumber::new(u8::try_from(*n).unwrap()).unwrap();
            vec![Dr6Flags::trap(n).bits() as i128, Dr7Flags::local_breakpoint_enable(n).bits() as i128, Dr7Flags::global_breakpoint_enable(n).bits() as i128]
        }
        _ => vec![-99],
    }
}

pub fn run(c: &[u64]) -> Vec<i128> {
    catch(|| run_inner(c)).unwrap_or_else(|| vec![PANIC])
}
