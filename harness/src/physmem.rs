//! Simulated physical memory (a sparse memfd mapped once at `base`) and the software MMU:
//! page faults on recursive-mapping addresses are resolved by an independent hardware-style
//! 4-level walk of the simulated memory and a MAP_FIXED alias of the reached frame.
#![allow(static_mut_refs)]
use std::sync::atomic::{AtomicBool, AtomicU64, AtomicUsize, Ordering};

pub const PHYS_SIZE: u64 = 1 << 40;
static mut FD: i32 = -1;
static mut BASE: *mut u8 = core::ptr::null_mut();
/// host layout: physical address p lives at BASE + (p ^ XOR_MASK) (a permuted frame-to-pointer mapping)
pub static XOR_MASK: AtomicU64 = AtomicU64::new(0);
/// root of the hierarchy the software MMU walks (the emulated CR3)
pub static REC_INDEX: AtomicU64 = AtomicU64::new(0);
pub static MMU_ROOT: AtomicU64 = AtomicU64::new(0);
pub static MMU_ENABLED: AtomicBool = AtomicBool::new(false);
pub static FAULTED: AtomicBool = AtomicBool::new(false);
const MAXALIAS: usize = 4096;
static mut ALIASES: [u64; MAXALIAS] = [0; MAXALIAS];
static NALIAS: AtomicUsize = AtomicUsize::new(0);
/// log of (virtual page, physical frame reached) of the last call
static mut FAULT_LOG: [(u64, u64); MAXALIAS] = [(0, 0); MAXALIAS];

pub fn init() {
    unsafe {
        if !BASE.is_null() {
            return;
        }
        let name = b"physmem\0";
        FD = libc::memfd_create(name.as_ptr() as *const libc::c_char, 0);
        assert!(FD >= 0, "memfd_create failed");
        assert!(libc::ftruncate(FD, PHYS_SIZE as i64) == 0, "ftruncate failed");
        let p = libc::mmap(core::ptr::null_mut(), PHYS_SIZE as usize, libc::PROT_READ | libc::PROT_WRITE, libc::MAP_SHARED | libc::MAP_NORESERVE, FD, 0);
        assert!(p != libc::MAP_FAILED, "mmap of physical memory failed");
        BASE = p as *mut u8;
        crate::softcpu::FAULT_HOOK = Some(fault_hook);
    }
}
pub fn base() -> u64 {
    unsafe { BASE as u64 }
}
#[inline]
pub fn host(p: u64) -> *mut u64 {
    debug_assert!(p < PHYS_SIZE);
    unsafe { BASE.add(((p ^ XOR_MASK.load(Ordering::Relaxed)) & (PHYS_SIZE - 1)) as usize) as *mut u64 }
}
#[inline]
pub fn read(p: u64) -> u64 {
    if p >= PHYS_SIZE {
        return background(p);
    }
    unsafe { core::ptr::read_volatile(host(p)) }
}
#[inline]
pub fn write(p: u64, v: u64) {
    unsafe { core::ptr::write_volatile(host(p), v) }
}
pub fn mix64(mut z: u64) -> u64 {
    z = (z ^ (z >> 30)).wrapping_mul(0xbf58_476d_1ce4_e5b9);
    z = (z ^ (z >> 27)).wrapping_mul(0x94d0_49bb_1331_11eb);
    z ^ (z >> 31)
}
/// what "arbitrary non-zero pre-filled memory" holds at address a
pub fn background(a: u64) -> u64 {
    // never zero; PRESENT (bit 0) set in every second word only, HUGE_PAGE (bit 7) varies too:
    // stale content must not look uniformly "present"
    (a ^ 0x5555_5555_5555_5554) | ((a >> 3) & 1)
}
pub fn fill_background(frame: u64) {
    for i in 0..512 {
        write(frame + 8 * i, background(frame + 8 * i));
    }
}
pub fn zero_frame(frame: u64) {
    for i in 0..512 {
        write(frame + 8 * i, 0);
    }
}
pub fn checksum(frame: u64) -> u64 {
    let (mut s1, mut s2) = (0u64, 0u64);
    for i in 0..512u64 {
        s1 = s1.wrapping_add(read(frame + 8 * i));
        s2 = s2.wrapping_add(s1);
    }
    s1 ^ s2.wrapping_mul(3)
}

pub struct Walk {
    pub phys: u64,
    pub size: u64,
    pub leaf: u64,
    pub writable: bool,
    pub user: bool,
}
const ADDR: u64 = 0x000f_ffff_ffff_f000;
/// independent hardware-style walk (not the crate's, not the model's)
pub fn hw_walk(root: u64, va: u64) -> Option<Walk> {
    let idx = |lvl: u32| (va >> (12 + 9 * lvl)) & 0x1ff;
    let e4 = read(root + 8 * idx(3));
    if e4 & 1 == 0 {
        return None;
    }
    let e3 = read((e4 & ADDR) + 8 * idx(2));
    if e3 & 1 == 0 {
        return None;
    }
    let w = |es: &[u64]| es.iter().all(|e| e & 2 != 0);
    let u = |es: &[u64]| es.iter().all(|e| e & 4 != 0);
    if e3 & 0x80 != 0 {
        return Some(Walk { phys: (e3 & 0x000f_ffff_c000_0000) + (va & 0x3fff_ffff), size: 1 << 30, leaf: e3, writable: w(&[e4, e3]), user: u(&[e4, e3]) });
    }
    let e2 = read((e3 & ADDR) + 8 * idx(1));
    if e2 & 1 == 0 {
        return None;
    }
    if e2 & 0x80 != 0 {
        return Some(Walk { phys: (e2 & 0x000f_ffff_ffe0_0000) + (va & 0x1f_ffff), size: 1 << 21, leaf: e2, writable: w(&[e4, e3, e2]), user: u(&[e4, e3, e2]) });
    }
    let e1 = read((e2 & ADDR) + 8 * idx(0));
    if e1 & 1 == 0 {
        return None;
    }
    Some(Walk { phys: (e1 & ADDR) + (va & 0xfff), size: 4096, leaf: e1, writable: w(&[e4, e3, e2, e1]), user: u(&[e4, e3, e2, e1]) })
}

/// SIGSEGV hook: resolve a fault on a recursive-mapping address
unsafe fn fault_hook(addr: u64, _write: bool) -> bool {
    if !MMU_ENABLED.load(Ordering::SeqCst) {
        return false;
    }
    let page = addr & !0xfff;
    let n = NALIAS.load(Ordering::SeqCst);
    if n >= MAXALIAS {
        return false;
    }
    let target = match hw_walk(MMU_ROOT.load(Ordering::SeqCst), page) {
        Some(w) if w.phys < PHYS_SIZE => Some(w.phys & !0xfff),
        _ => None,
    };
    let r = match target {
        Some(frame) => libc::mmap(page as *mut libc::c_void, 4096, libc::PROT_READ | libc::PROT_WRITE, libc::MAP_SHARED | libc::MAP_FIXED_NOREPLACE, FD, frame as i64),
        None => {
            // an access the MMU cannot resolve: let the call continue on a scratch page and flag it
            FAULTED.store(true, Ordering::SeqCst);
            libc::mmap(page as *mut libc::c_void, 4096, libc::PROT_READ | libc::PROT_WRITE, libc::MAP_PRIVATE | libc::MAP_ANONYMOUS | libc::MAP_FIXED_NOREPLACE, -1, 0)
        }
    };
    if r == libc::MAP_FAILED || r as u64 != page {
        return false;
    }
    ALIASES[n] = page;
    FAULT_LOG[n] = (page, target.unwrap_or(u64::MAX));
    NALIAS.store(n + 1, Ordering::SeqCst);
    true
}
/// drop all alias mappings (the "TLB" of the software MMU), returning the fault log
pub fn drop_aliases() -> Vec<(u64, u64)> {
    let n = NALIAS.load(Ordering::SeqCst);
    let mut log = vec![];
    for i in 0..n {
        unsafe {
            libc::munmap(ALIASES[i] as *mut libc::c_void, 4096);
            log.push(FAULT_LOG[i]);
        }
    }
    NALIAS.store(0, Ordering::SeqCst);
    log
}
