//! Address engine: runs the real crate on one case (function id + arguments).
//! Mirrors coq/theories/Addr/Run.v (`run_addr`).
use crate::util::*;
use core::iter::Step;
use x86_64::structures::paging::page::{PageRange, PageRangeInclusive};
use x86_64::structures::paging::frame::{PhysFrameRange, PhysFrameRangeInclusive};
use x86_64::structures::paging::page_table::{PageTableEntry, PageTableLevel};
use x86_64::structures::paging::{
    Page, PageOffset, PageSize, PageTableIndex, PhysFrame, Size1GiB, Size2MiB, Size4KiB,
};
use x86_64::{PhysAddr, VirtAddr};

/// Build a VirtAddr from a raw value that the *generator* claims is valid. The harness never
/// uses unsafe constructors to smuggle invalid values in: invalid raw values are a panic of
/// the safe constructor and reported as such.
fn va(a: u64) -> VirtAddr {
    VirtAddr::new(a)
}
fn pa(a: u64) -> PhysAddr {
    PhysAddr::new(a)
}
fn level(l: u64) -> PageTableLevel {
    match l {
        1 => PageTableLevel::One,
        2 => PageTableLevel::Two,
        3 => PageTableLevel::Three,
        _ => PageTableLevel::Four,
    }
}
fn steps(p: (usize, Option<usize>)) -> Vec<i128> {
    let mut v = vec![p.0 as i128];
    v.extend(o(p.1.map(|x| x as u64)));
    v
}
fn pg<S: PageSize>(a: u64) -> Page<S> {
    Page::from_start_address(va(a)).unwrap()
}
fn fr<S: PageSize>(a: u64) -> PhysFrame<S> {
    PhysFrame::from_start_address(pa(a)).unwrap()
}

macro_rules! by_size {
    ($k:expr, $f:ident, $($arg:expr),*) => {
        match $k { 0 => $f::<Size4KiB>($($arg),*), 1 => $f::<Size2MiB>($($arg),*), _ => $f::<Size1GiB>($($arg),*) }
    };
}

fn page_containing<S: PageSize>(a: u64) -> Vec<i128> {
    r(catch(|| Page::<S>::containing_address(va(a)).start_address().as_u64()))
}
fn page_from_start<S: PageSize>(a: u64) -> Vec<i128> {
    ro(catch(|| Page::<S>::from_start_address(va(a)).ok().map(|p| p.start_address().as_u64())))
}
fn page_add<S: PageSize>(p: u64, n: u64) -> Vec<i128> {
    r(catch(|| (pg::<S>(p) + n).start_address().as_u64()))
}
fn page_add_assign<S: PageSize>(p: u64, n: u64) -> Vec<i128> {
    r(catch(|| {
        let mut x = pg::<S>(p);
        x += n;
        x.start_address().as_u64()
    }))
}
fn page_sub<S: PageSize>(p: u64, n: u64) -> Vec<i128> {
    r(catch(|| (pg::<S>(p) - n).start_address().as_u64()))
}
fn page_sub_assign<S: PageSize>(p: u64, n: u64) -> Vec<i128> {
    r(catch(|| {
        let mut x = pg::<S>(p);
        x -= n;
        x.start_address().as_u64()
    }))
}
fn page_sub_page<S: PageSize>(p: u64, q: u64) -> Vec<i128> {
    r(catch(|| pg::<S>(p) - pg::<S>(q)))
}
fn page_steps<S: PageSize>(s: u64, e: u64) -> Vec<i128> {
    match catch(|| Step::steps_between(&pg::<S>(s), &pg::<S>(e))) {
        Some(p) => steps(p),
        None => vec![PANIC],
    }
}
/// forward/backward_checked, cross-checked against the other entry points of `Step` that std's
/// ranges use (forward / forward_unchecked / backward / backward_unchecked, and Range::next for
/// single steps): where the checked variant returns a value, all of them must return the same one
fn step_fwd_all<T: Step + Copy + PartialEq>(start: T, n: usize) -> Option<T> {
    let r = Step::forward_checked(start, n);
    if let Some(x) = r {
        if Step::forward(start, n) != x { panic!("Step::forward disagrees with forward_checked"); }
        if unsafe { Step::forward_unchecked(start, n) } != x { panic!("Step::forward_unchecked disagrees with forward_checked"); }
        if n == 1 {
            let mut rg = start..x;
            if rg.next() != Some(start) || rg.start != x { panic!("Range::next disagrees with forward_checked"); }
        }
    }
    r
}
fn step_bwd_all<T: Step + Copy + PartialEq>(start: T, n: usize) -> Option<T> {
    let r = Step::backward_checked(start, n);
    if let Some(x) = r {
        if Step::backward(start, n) != x { panic!("Step::backward disagrees with backward_checked"); }
        if unsafe { Step::backward_unchecked(start, n) } != x { panic!("Step::backward_unchecked disagrees with backward_checked"); }
        if n == 1 {
            let mut rg = x..start;
            if rg.next_back() != Some(x) || rg.end != x { panic!("Range::next_back disagrees with backward_checked"); }
        }
    }
    r
}
fn page_fwd<S: PageSize>(s: u64, n: u64) -> Vec<i128> {
    ro(catch(|| step_fwd_all(pg::<S>(s), n as usize).map(|p| p.start_address().as_u64())))
}
fn page_bwd<S: PageSize>(s: u64, n: u64) -> Vec<i128> {
    ro(catch(|| step_bwd_all(pg::<S>(s), n as usize).map(|p| p.start_address().as_u64())))
}
fn frame_containing<S: PageSize>(a: u64) -> Vec<i128> {
    r(catch(|| PhysFrame::<S>::containing_address(pa(a)).start_address().as_u64()))
}
fn frame_from_start<S: PageSize>(a: u64) -> Vec<i128> {
    ro(catch(|| PhysFrame::<S>::from_start_address(pa(a)).ok().map(|p| p.start_address().as_u64())))
}
fn frame_add<S: PageSize>(p: u64, n: u64) -> Vec<i128> {
    r(catch(|| (fr::<S>(p) + n).start_address().as_u64()))
}
fn frame_add_assign<S: PageSize>(p: u64, n: u64) -> Vec<i128> {
    r(catch(|| {
        let mut x = fr::<S>(p);
        x += n;
        x.start_address().as_u64()
    }))
}
fn frame_sub<S: PageSize>(p: u64, n: u64) -> Vec<i128> {
    r(catch(|| (fr::<S>(p) - n).start_address().as_u64()))
}
fn frame_sub_assign<S: PageSize>(p: u64, n: u64) -> Vec<i128> {
    r(catch(|| {
        let mut x = fr::<S>(p);
        x -= n;
        x.start_address().as_u64()
    }))
}
fn frame_sub_frame<S: PageSize>(p: u64, q: u64) -> Vec<i128> {
    r(catch(|| fr::<S>(p) - fr::<S>(q)))
}
fn idx(v: PageTableIndex) -> i128 {
    // all four conversions must agree
    let a = u16::from(v) as i128;
    let b = u32::from(v) as i128;
    let c = u64::from(v) as i128;
    let d = usize::from(v) as i128;
    if a == b && b == c && c == d {
        a
    } else {
        -77
    }
}
fn off(v: PageOffset) -> i128 {
    let a = u16::from(v) as i128;
    let b = u32::from(v) as i128;
    let c = u64::from(v) as i128;
    let d = usize::from(v) as i128;
    if a == b && b == c && c == d {
        a
    } else {
        -77
    }
}
fn page_indices<S: PageSize>(k: u64, p: u64) -> Vec<i128> {
    match catch(|| {
        let mut v = vec![];
        let page = pg::<S>(p);
        v.push(idx(page.p4_index()));
        v.push(idx(page.p3_index()));
        if k != 2 {
            // p2_index exists for NotGiantPageSize only
            v.push(match k {
                0 => idx(pg::<Size4KiB>(p).p2_index()),
                _ => idx(pg::<Size2MiB>(p).p2_index()),
            });
        }
        if k == 0 {
            v.push(idx(pg::<Size4KiB>(p).p1_index()));
        }
        for l in 1..=4 {
            v.push(idx(page.page_table_index(level(l))));
        }
        v
    }) {
        Some(v) => v,
        None => vec![PANIC],
    }
}

/// generic range runner: is_empty, len, size, then up to n `next()` calls
fn run_iter<T: Copy, I: Iterator<Item = T> + Clone>(
    it: I,
    is_empty: impl Fn(&I) -> bool,
    len: impl Fn(&I) -> u64,
    size: impl Fn(&I) -> u64,
    item: impl Fn(T) -> u64,
    bounds: impl Fn(&I) -> (u64, u64),
    n: u64,
) -> Vec<i128> {
    let mut v = vec![];
    v.push(is_empty(&it) as i128);
    v.extend(r(catch(|| len(&it))));
    v.extend(r(catch(|| size(&it))));
    let mut items = vec![];
    let mut pan = false;
    let it_for_nth = it.clone();
    let mut cur = it;
    for _ in 0..n {
        let mut c2 = cur.clone();
        match catch(move || {
            let x = c2.next();
            (x, c2)
        }) {
            None => {
                pan = true;
                break;
            }
            Some((None, c3)) => {
                cur = c3;
                break;
            }
            Some((Some(x), c3)) => {
                items.push(item(x) as i128);
                cur = c3;
            }
        }
    }
    // Iterator::nth (what skip / step_by use) must agree with repeated next: nth(k) is item k, then the rest follows
    if !pan {
        let complete = (items.len() as u64) < n;    // the iteration above ended by itself
        for k in 0..items.len().min(6) {
            // (the element after it is asked for only where the loop above asked for it too)
            let follow = k + 1 < items.len() || complete;
            let mut c = it_for_nth.clone();
            let got = catch(move || { let x = c.nth(k); let y = if follow { c.next() } else { None }; (x, y) });
            match got {
                Some((x, y)) => {
                    if x.map(|t| item(t) as i128) != items.get(k).copied() { pan = true; }
                    if follow && y.map(|t| item(t) as i128) != items.get(k + 1).copied() { pan = true; }
                }
                None => { pan = true; }
            }
        }
        if complete {
            let mut c = it_for_nth.clone();
            let k = items.len();
            if !matches!(catch(move || c.nth(k).is_none()), Some(true)) { pan = true; }
            // skipping past the end (what step_by / skip do at the tail) yields nothing and does not panic,
            // also when the range ends at the last page of a half or at the last frame
            for extra in [1usize, 2, 7] {
                let mut c = it_for_nth.clone();
                if !matches!(catch(move || c.nth(k + extra).is_none() && c.next().is_none()), Some(true)) { pan = true; }
            }
        }
    }
    v.push(items.len() as i128);
    v.extend(items);
    v.push(pan as i128);
    let (s, e) = bounds(&cur);
    v.push(s as i128);
    v.push(e as i128);
    v
}
fn run_range<S: PageSize>(k: u64, s: u64, e: u64, n: u64) -> Vec<i128> {
    let res = catch(|| match k {
        0 => {
            let rg: PageRange<S> = Page::range(pg::<S>(s), pg::<S>(e));
            run_iter(
                rg,
                |r| r.is_empty(),
                |r| r.len(),
                |r| r.size(),
                |p: Page<S>| p.start_address().as_u64(),
                |r| (r.start.start_address().as_u64(), r.end.start_address().as_u64()),
                n,
            )
        }
        1 => {
            let rg: PageRangeInclusive<S> = Page::range_inclusive(pg::<S>(s), pg::<S>(e));
            run_iter(
                rg,
                |r| r.is_empty(),
                |r| r.len(),
                |r| r.size(),
                |p: Page<S>| p.start_address().as_u64(),
                |r| (r.start.start_address().as_u64(), r.end.start_address().as_u64()),
                n,
            )
        }
        2 => {
            let rg: PhysFrameRange<S> = PhysFrame::range(fr::<S>(s), fr::<S>(e));
            run_iter(
                rg,
                |r| r.is_empty(),
                |r| r.len(),
                |r| r.size(),
                |p: PhysFrame<S>| p.start_address().as_u64(),
                |r| (r.start.start_address().as_u64(), r.end.start_address().as_u64()),
                n,
            )
        }
        _ => {
            let rg: PhysFrameRangeInclusive<S> = PhysFrame::range_inclusive(fr::<S>(s), fr::<S>(e));
            run_iter(
                rg,
                |r| r.is_empty(),
                |r| r.len(),
                |r| r.size(),
                |p: PhysFrame<S>| p.start_address().as_u64(),
                |r| (r.start.start_address().as_u64(), r.end.start_address().as_u64()),
                n,
            )
        }
    });
    res.unwrap_or_else(|| vec![PANIC])
}

fn handler_addr(lo: u64, mid: u64, hi: u64) -> u64 {
    use x86_64::structures::idt::{Entry, HandlerFunc};
    // a gate with the three pointer fields set (byte offsets 0, 6, 8: the architectural
    // layout, checked separately by C12) and the options of a missing entry
    let mut e: Entry<HandlerFunc> = Entry::missing();
    unsafe {
        let p = &mut e as *mut _ as *mut u8;
        (p as *mut u16).write_unaligned(lo as u16);
        (p.add(6) as *mut u16).write_unaligned(mid as u16);
        (p.add(8) as *mut u32).write_unaligned(hi as u32);
    }
    e.handler_addr().as_u64()
}
fn pte_addr(e: u64) -> Option<u64> {
    let ent: PageTableEntry = unsafe { core::mem::transmute(e) };
    catch(|| {
        let a = ent.addr().as_u64();
        // the frame of a present entry is another producer of a physical address: it must be the frame at addr()
        if let Ok(f) = ent.frame() {
            if f.start_address().as_u64() != a { return f.start_address().as_u64(); }
        }
        a
    })
}

fn va_prog_step(cur: u64, op: u64, arg: u64) -> Option<u64> {
    catch(|| {
        let c = va(cur);
        let keep = |o: Option<VirtAddr>| o.unwrap_or(c).as_u64();
        match op {
            0 => VirtAddr::new(arg).as_u64(),
            1 => keep(VirtAddr::try_new(arg).ok()),
            2 => VirtAddr::new_truncate(arg).as_u64(),
            3 => VirtAddr::zero().as_u64(),
            4 => c.align_up(arg).as_u64(),
            5 => c.align_down(arg).as_u64(),
            6 => {
                // the compound operators on their own: a check hidden behind `c + arg` would mask a missing one
                let mut x = c;
                x += arg;
                x.as_u64()
            }
            7 => {
                let mut x = c;
                x -= arg;
                x.as_u64()
            }
            16 => (c + arg).as_u64(),
            17 => (c - arg).as_u64(),
            18 => VirtAddr::from_ptr(arg as *const u8).as_u64(),
            19 => Page::from_page_table_indices_1gib(c.p4_index(), PageTableIndex::new_truncate(arg as u16)).start_address().as_u64(),
            20 => Page::from_page_table_indices_2mib(c.p4_index(), c.p3_index(), PageTableIndex::new_truncate(arg as u16)).start_address().as_u64(),
            8 => keep(Step::forward_checked(c, arg as usize)),
            9 => keep(Step::backward_checked(c, arg as usize)),
            10 => (Page::<Size4KiB>::containing_address(c) + arg).start_address().as_u64(),
            11 => (Page::<Size2MiB>::containing_address(c) - arg).start_address().as_u64(),
            12 => {
                let p = Page::<Size1GiB>::containing_address(c);
                Step::forward_checked(p, arg as usize).unwrap_or(p).start_address().as_u64()
            }
            13 => {
                let p = Page::<Size4KiB>::containing_address(c);
                Step::backward_checked(p, arg as usize).unwrap_or(p).start_address().as_u64()
            }
            14 => Page::from_page_table_indices(
                c.p4_index(),
                PageTableIndex::new_truncate(arg as u16),
                c.p2_index(),
                c.p1_index(),
            )
            .start_address()
            .as_u64(),
            15 => handler_addr(arg & 0xffff, (arg >> 16) & 0xffff, arg >> 32),
            _ => cur,
        }
    })
}
fn pa_prog_step(cur: u64, op: u64, arg: u64) -> Option<u64> {
    catch(|| {
        let c = pa(cur);
        match op {
            0 => PhysAddr::new(arg).as_u64(),
            1 => PhysAddr::try_new(arg).ok().unwrap_or(c).as_u64(),
            2 => PhysAddr::new_truncate(arg).as_u64(),
            3 => PhysAddr::zero().as_u64(),
            4 => c.align_up(arg).as_u64(),
            5 => c.align_down(arg).as_u64(),
            6 => {
                let mut x = c;
                x += arg;
                x.as_u64()
            }
            7 => {
                let mut x = c;
                x -= arg;
                x.as_u64()
            }
            11 => (c + arg).as_u64(),
            12 => (c - arg).as_u64(),
            8 => (PhysFrame::<Size4KiB>::containing_address(c) + arg).start_address().as_u64(),
            9 => (PhysFrame::<Size2MiB>::containing_address(c) - arg).start_address().as_u64(),
            10 => pte_addr(arg).unwrap(),
            _ => cur,
        }
    })
}
fn run_prog(step: fn(u64, u64, u64) -> Option<u64>, init: u64, l: &[u64]) -> Vec<i128> {
    let mut v = vec![];
    let mut cur = init;
    for ch in l.chunks(2) {
        if ch.len() < 2 {
            break;
        }
        match step(cur, ch[0], ch[1]) {
            Some(x) => {
                v.push(x as i128);
                cur = x;
            }
            None => {
                v.push(PANIC);
                break;
            }
        }
    }
    v
}

pub fn run(c: &[u64]) -> Vec<i128> {
    catch(|| run_inner(c)).unwrap_or_else(|| vec![PANIC])
}

fn run_inner(c: &[u64]) -> Vec<i128> {
    match c {
        [1, a] => r(catch(|| VirtAddr::new(*a).as_u64())),
        [2, a] => o(VirtAddr::try_new(*a).ok().map(|v| v.as_u64())),
        [3, a] => vec![VirtAddr::new_truncate(*a).as_u64() as i128],
        [4, a, al] => r(catch(|| x86_64::addr::align_down(*a, *al))),
        [5, a, al] => r(catch(|| x86_64::addr::align_up(*a, *al))),
        [6, a, al] => r(catch(|| va(*a).align_up(*al).as_u64())),
        [7, a, al] => r(catch(|| va(*a).align_down(*al).as_u64())),
        [8, a, al] => r(catch(|| va(*a).is_aligned(*al) as u64)),
        [9, a] => match catch(|| {
            let v = va(*a);
            vec![
                off(v.page_offset()),
                idx(v.p1_index()),
                idx(v.p2_index()),
                idx(v.p3_index()),
                idx(v.p4_index()),
                idx(v.page_table_index(level(1))),
                idx(v.page_table_index(level(2))),
                idx(v.page_table_index(level(3))),
                idx(v.page_table_index(level(4))),
            ]
        }) {
            Some(v) => v,
            None => vec![PANIC],
        },
        [10, s, e] => steps(Step::steps_between(&va(*s), &va(*e))),
        [11, s, n] => ro(catch(|| step_fwd_all(va(*s), *n as usize).map(|v| v.as_u64()))),
        [12, s, n] => ro(catch(|| step_bwd_all(va(*s), *n as usize).map(|v| v.as_u64()))),
        // the compound operators must do what the plain ones do (value or panic)
        [13, a, b] => {
            let r1 = catch(|| (va(*a) + *b).as_u64());
            let r2 = catch(|| { let mut x = va(*a); x += *b; x.as_u64() });
            if r1 != r2 { return vec![r2.unwrap_or(0x0bad_0bad_0bad_0bad) as i128]; }
            r(r1)
        }
        [14, a, b] => {
            let r1 = catch(|| (va(*a) - *b).as_u64());
            let r2 = catch(|| { let mut x = va(*a); x -= *b; x.as_u64() });
            if r1 != r2 { return vec![r2.unwrap_or(0x0bad_0bad_0bad_0bad) as i128]; }
            r(r1)
        }
        [15, a, b] => r(catch(|| va(*a) - va(*b))),
        [16, a] => r(catch(|| PhysAddr::new(*a).as_u64())),
        [17, a] => o(PhysAddr::try_new(*a).ok().map(|v| v.as_u64())),
        [18, a] => vec![PhysAddr::new_truncate(*a).as_u64() as i128],
        [19, a, al] => r(catch(|| pa(*a).align_up(*al).as_u64())),
        [20, a, al] => r(catch(|| pa(*a).align_down(*al).as_u64())),
        [21, a, al] => r(catch(|| pa(*a).is_aligned(*al) as u64)),
        [22, a, b] => r(catch(|| (pa(*a) + *b).as_u64())),
        [23, a, b] => r(catch(|| (pa(*a) - *b).as_u64())),
        [24, a, b] => r(catch(|| pa(*a) - pa(*b))),
        [25, k, a] => by_size!(*k, page_containing, *a),
        [26, k, a] => by_size!(*k, page_from_start, *a),
        [27, k, p, n] => {
            let x = by_size!(*k, page_add, *p, *n);
            let y = by_size!(*k, page_add_assign, *p, *n);
            if x == y { x } else { vec![-78] }
        }
        [28, k, p, n] => {
            let x = by_size!(*k, page_sub, *p, *n);
            let y = by_size!(*k, page_sub_assign, *p, *n);
            if x == y { x } else { vec![-78] }
        }
        [29, k, p, q] => by_size!(*k, page_sub_page, *p, *q),
        [30, k, s, e] => by_size!(*k, page_steps, *s, *e),
        [31, k, s, n] => by_size!(*k, page_fwd, *s, *n),
        [32, k, s, n] => by_size!(*k, page_bwd, *s, *n),
        [33, p4, p3] => r(catch(|| {
            Page::from_page_table_indices_1gib(PageTableIndex::new(*p4 as u16), PageTableIndex::new(*p3 as u16))
                .start_address()
                .as_u64()
        })),
        [34, p4, p3, p2] => r(catch(|| {
            Page::from_page_table_indices_2mib(
                PageTableIndex::new(*p4 as u16),
                PageTableIndex::new(*p3 as u16),
                PageTableIndex::new(*p2 as u16),
            )
            .start_address()
            .as_u64()
        })),
        [35, p4, p3, p2, p1] => r(catch(|| {
            Page::from_page_table_indices(
                PageTableIndex::new(*p4 as u16),
                PageTableIndex::new(*p3 as u16),
                PageTableIndex::new(*p2 as u16),
                PageTableIndex::new(*p1 as u16),
            )
            .start_address()
            .as_u64()
        })),
        [36, k, a] => by_size!(*k, frame_containing, *a),
        [37, k, a] => by_size!(*k, frame_from_start, *a),
        [38, k, p, n] => {
            let x = by_size!(*k, frame_add, *p, *n);
            let y = by_size!(*k, frame_add_assign, *p, *n);
            if x == y { x } else { vec![-78] }
        }
        [39, k, p, n] => {
            let x = by_size!(*k, frame_sub, *p, *n);
            let y = by_size!(*k, frame_sub_assign, *p, *n);
            if x == y { x } else { vec![-78] }
        }
        [40, k, p, q] => by_size!(*k, frame_sub_frame, *p, *q),
        [41, k, p] => by_size!(*k, page_indices, *k, *p),
        [42, i] => r(catch(|| idx(PageTableIndex::new(*i as u16)) as u64)),
        [43, i] => vec![idx(PageTableIndex::new_truncate(*i as u16))],
        [44, i] => r(catch(|| off(PageOffset::new(*i as u16)) as u64)),
        [45, i] => vec![off(PageOffset::new_truncate(*i as u16))],
        [46, s, e] => steps(Step::steps_between(
            &PageTableIndex::new(*s as u16),
            &PageTableIndex::new(*e as u16),
        )),
        [47, s, n] => ro(catch(|| {
            step_fwd_all(PageTableIndex::new(*s as u16), *n as usize).map(|v| idx(v) as u64)
        })),
        [48, s, n] => ro(catch(|| {
            step_bwd_all(PageTableIndex::new(*s as u16), *n as usize).map(|v| idx(v) as u64)
        })),
        [49, l] => {
            let lv = level(*l);
            let mut v = o(lv.next_lower_level().map(|x| x as u64));
            v.extend(o(lv.next_higher_level().map(|x| x as u64)));
            v.push(lv.table_address_space_alignment() as i128);
            v.push(lv.entry_address_space_alignment() as i128);
            v
        }
        [50, k, szk, s, e, n] => by_size!(*szk, run_range, *k, *s, *e, *n),
        [51, s, e] => match catch(|| {
            let r2: PageRange<Size2MiB> = Page::range(pg(*s), pg(*e));
            let r4 = r2.as_4kib_page_range();
            let mut v = vec![
                r4.start.start_address().as_u64() as i128,
                r4.end.start_address().as_u64() as i128,
            ];
            v.extend(r(catch(|| r4.len())));
            v.extend(r(catch(|| r4.size())));
            v.extend(r(catch(|| r2.len())));
            v.extend(r(catch(|| r2.size())));
            v
        }) {
            Some(v) => v,
            None => vec![PANIC],
        },
        [52, init, rest @ ..] => run_prog(va_prog_step, *init, rest),
        [53, init, rest @ ..] => run_prog(pa_prog_step, *init, rest),
        [54, e] => r(pte_addr(*e)),
        [55, lo, mid, hi] => vec![handler_addr(*lo, *mid, *hi) as i128],
        _ => vec![-99],
    }
}
