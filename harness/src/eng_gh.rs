//! Engine "gh": set_general_handler! -- which gates it installs, and what each installed stub
//! does when it is entered with a hardware-format stack frame (C13).
//! The stubs are the code rustc/LLVM emitted for the macro's `extern "x86-interrupt"` functions;
//! they are entered by a jump on a private stack and return through their own `iretq`.
//! Mirrors coq/theories/Tables/General.v (`run_gh`).
#![allow(static_mut_refs)]
use crate::util::*;
use core::arch::asm;
use core::ops::Bound;
use x86_64::registers::rflags::RFlags;
use x86_64::registers::segmentation::{Segment, CS, SS};
use x86_64::structures::gdt::SegmentSelector;
use x86_64::structures::idt::{InterruptDescriptorTable, InterruptStackFrame, InterruptStackFrameValue};
use x86_64::VirtAddr;

#[repr(C)]
#[derive(Clone, Copy, Default)]
struct Rec {
    count: u64,
    idx: u64,
    err_some: u64,
    err: u64,
    rip: u64,
    cs: u64,
    rflags: u64,
    rsp: u64,
    ss: u64,
    frame_addr: u64,
}
static mut REC: Rec = Rec { count: 0, idx: 0, err_some: 0, err: 0, rip: 0, cs: 0, rflags: 0, rsp: 0, ss: 0, frame_addr: 0 };
/// [0] rsp, [1] rbp, [2] rbx, [3] address after the sled, [4] rsp at resume, [5] rflags at resume, [6] escaped, [7] sled counter
#[no_mangle]
static mut GH_SAVE: [u64; 10] = [0; 10];
#[repr(C, align(16))]
struct Stack([u8; 1 << 16]);
static mut STACK: Stack = Stack([0; 1 << 16]);
static mut LANDING: [u64; 4096] = [0; 4096];

fn general(frame: InterruptStackFrame, index: u8, error_code: Option<u64>) {
    unsafe {
        REC.count += 1;
        REC.idx = index as u64;
        REC.err_some = error_code.is_some() as u64;
        REC.err = error_code.unwrap_or(0);
        REC.rip = frame.instruction_pointer.as_u64();
        REC.cs = frame.code_segment.0 as u64;
        REC.rflags = frame.cpu_flags.bits();
        REC.rsp = frame.stack_pointer.as_u64();
        REC.ss = frame.stack_segment.0 as u64;
        REC.frame_addr = &*frame as *const InterruptStackFrameValue as u64;
        if index == 8 || index == 18 {
            // diverging stubs (double fault, machine check) panic when the general handler returns:
            // observe them up to here and leave through the saved context
            escape();
        }
    }
}
unsafe fn escape() -> ! {
    asm!(
        "mov qword ptr [rip + GH_SAVE + 48], 1",
        "mov rsp, [rip + GH_SAVE]",
        "mov rbp, [rip + GH_SAVE + 8]",
        "mov rbx, [rip + GH_SAVE + 16]",
        "jmp [rip + GH_SAVE + 24]",
        options(noreturn)
    )
}
extern "C" fn do_iretq(f: *const InterruptStackFrameValue) -> ! {
    unsafe { (*f).iretq() }
}

/// mode 0: push the frame (and the error code) and jump to `target`; mode 1: call do_iretq(frame)
#[inline(never)]
unsafe fn enter(mode: u64, target: u64, frame: &mut [u64; 5], k: u64, has_err: u64, err: u64) {
    let top = (STACK.0.as_ptr() as u64 + (1 << 16)) & !0xf;
    GH_SAVE[6] = 0;
    asm!(
        "mov [rip + GH_SAVE], rsp",
        "mov [rip + GH_SAVE + 8], rbp",
        "mov [rip + GH_SAVE + 16], rbx",
        "lea rax, [rip + 4f]",
        "mov [rip + GH_SAVE + 24], rax",
        "lea rax, [rip + 2f]",
        "lea rax, [rax + 4*r10]",          // resume inside the sled: 4-byte instructions
        "mov [rip + GH_SAVE + 64], rax",
        "xor r9d, r9d",
        "mov rsp, rdi",
        "test r11, r11",
        "jnz 5f",
        "push qword ptr [rsi + 32]",       // SS
        "push qword ptr [rsi + 24]",       // RSP
        "push qword ptr [rsi + 16]",       // RFLAGS
        "push qword ptr [rsi + 8]",        // CS
        "push rax",                        // RIP
        "test rdx, rdx",
        "jz 3f",
        "push rcx",                        // error code
        "3:",
        "jmp r8",
        "5:",
        "mov [rsi], rax",                  // frame.instruction_pointer
        "mov rdi, rsi",
        "call r8",
        "ud2",
        ".p2align 4",
        "2:",
        "lea r9, [r9 + 1]", "lea r9, [r9 + 1]", "lea r9, [r9 + 1]", "lea r9, [r9 + 1]",
        "lea r9, [r9 + 1]", "lea r9, [r9 + 1]", "lea r9, [r9 + 1]", "lea r9, [r9 + 1]",
        "lea r9, [r9 + 1]", "lea r9, [r9 + 1]", "lea r9, [r9 + 1]", "lea r9, [r9 + 1]",
        "lea r9, [r9 + 1]", "lea r9, [r9 + 1]", "lea r9, [r9 + 1]", "lea r9, [r9 + 1]",
        "mov [rip + GH_SAVE + 56], r9",
        "mov [rip + GH_SAVE + 32], rsp",
        "mov rsp, [rip + GH_SAVE]",
        "pushfq",
        "pop rax",
        "mov [rip + GH_SAVE + 40], rax",
        "4:",
        "cld",
        "mov rsp, [rip + GH_SAVE]",
        "mov rbp, [rip + GH_SAVE + 8]",
        "mov rbx, [rip + GH_SAVE + 16]",
        inout("rdi") top => _, inout("rsi") frame.as_mut_ptr() => _, inout("rdx") has_err => _, inout("rcx") err => _,
        inout("r8") target => _, inout("r10") k => _, inout("r11") mode => _,
        out("rax") _, out("r9") _, out("r12") _, out("r13") _, out("r14") _, out("r15") _,
        clobber_abi("C"),
    );
}

const ERR_VECTORS: [u64; 10] = [8, 10, 11, 12, 13, 14, 17, 21, 29, 30];
const FLAG_MASK: u64 = 0xcd5;

fn raw(idt: &InterruptDescriptorTable) -> &[u64] {
    unsafe { core::slice::from_raw_parts(idt as *const _ as *const u64, 512) }
}
fn bound(kind: u64, v: u64) -> Bound<u8> {
    match kind { 0 => Bound::Included(v as u8), 1 => Bound::Excluded(v as u8), _ => Bound::Unbounded }
}
fn install(idt: &mut InterruptDescriptorTable, lo: Bound<u8>, hi: Bound<u8>) {
    x86_64::set_general_handler!(idt, general, (lo, hi));
}
/// another general handler, installed first: installing `general` afterwards must replace it everywhere
fn general_other(_frame: InterruptStackFrame, index: u8, _error_code: Option<u64>) {
    unsafe {
        OTHER_CALLS += 1;
        if index == 8 || index == 18 {
            escape();
        }
    }
}
static mut OTHER_CALLS: u64 = 0;
fn install_other(idt: &mut InterruptDescriptorTable) {
    x86_64::set_general_handler!(idt, general_other);
}

pub fn run(c: &[u64]) -> Vec<i128> {
    match c {
        [1, sk, s, ek, e] if *s < 256 && *e < 256 => {
            let r = catch(|| {
                let mut idt = InterruptDescriptorTable::new();
                let before: Vec<u64> = raw(&idt).to_vec();
                install(&mut idt, bound(*sk, *s), bound(*ek, *e));
                let w = raw(&idt);
                let cs = CS::get_reg().0 as u64;
                let mut bm = [0u64; 4];
                let (mut dirty, mut bad) = (0i128, 0i128);
                let mut addrs = std::collections::HashSet::new();
                for v in 0..256usize {
                    let (lo, hi) = (w[2 * v], w[2 * v + 1]);
                    if lo >> 47 & 1 == 1 {
                        bm[v / 64] |= 1 << (v % 64);
                        let sel = (lo >> 16) & 0xffff;
                        let opts = (lo >> 32) & 0xffff;
                        // interrupt gate, present, DPL 0, IST 0, reserved bits as in the missing entry
                        if sel != cs || opts != 0x8e00 || hi >> 32 != 0 { bad += 1; }
                        addrs.insert((lo & 0xffff) | ((lo >> 48) << 16) | ((hi & 0xffff_ffff) << 32));
                    } else if lo != before[2 * v] || hi != before[2 * v + 1] {
                        dirty += 1;
                    }
                }
                vec![bm[0] as i128, bm[1] as i128, bm[2] as i128, bm[3] as i128, dirty, bad, addrs.len() as i128]
            });
            r.unwrap_or_else(|| vec![PANIC])
        }
        [2, v, k, rsp_off, rflags, err] if *v < 256 && *k < 16 && *rsp_off < 4000 => unsafe {
            let mut idt = InterruptDescriptorTable::new();
            // every second case: the table already holds the stubs of another general handler
            let preinstalled = (*v + *k + *rsp_off) % 2 == 1;
            if preinstalled && catch(std::panic::AssertUnwindSafe(|| install_other(&mut idt))).is_none() {
                return vec![PANIC];
            }
            // every fourth case: all 256 gates already hold a present gate whose handler lies far away from
            // any stub (all offset bits differ); the installed stub must replace it completely
            let dirtied = (*v + *k + *rsp_off) % 4 == 2;
            let far: u64 = 0x0000_7fff_5555_a000;
            let csel = CS::get_reg().0 as u64;
            let (dlo, dhi) = ((far & 0xffff) | (csel << 16) | (0x8e00u64 << 32) | (((far >> 16) & 0xffff) << 48), far >> 32);
            if dirtied {
                let p = &mut idt as *mut InterruptDescriptorTable as *mut u64;
                for i in 0..256usize {
                    p.add(2 * i).write(dlo);
                    p.add(2 * i + 1).write(dhi);
                }
            }
            if catch(std::panic::AssertUnwindSafe(|| install(&mut idt, Bound::Unbounded, Bound::Unbounded))).is_none() {
                return vec![PANIC];
            }
            // every fourth case: the stubs are installed, every gate is then made non-present (its handler
            // address kept), and the same installation runs again: it must make the gates present again
            if (*v + *k + *rsp_off) % 4 == 3 {
                let p = &mut idt as *mut InterruptDescriptorTable as *mut u64;
                for i in 0..256usize {
                    let lo = p.add(2 * i).read();
                    p.add(2 * i).write(lo & !(1u64 << 47));
                }
                if catch(std::panic::AssertUnwindSafe(|| install(&mut idt, Bound::Unbounded, Bound::Unbounded))).is_none() {
                    return vec![PANIC];
                }
            }
            let w = raw(&idt);
            let (lo, hi) = (w[2 * *v as usize], w[2 * *v as usize + 1]);
            if lo >> 47 & 1 == 0 || (dirtied && (lo, hi) == (dlo, dhi)) {
                // nothing was installed for this vector (a reserved one): the gate is as it was
                return vec![NONE];
            }
            let target = (lo & 0xffff) | ((lo >> 48) << 16) | ((hi & 0xffff_ffff) << 32);
            // the gate must be the one the same installation writes into a fresh table
            let mut fresh = InterruptDescriptorTable::new();
            if catch(std::panic::AssertUnwindSafe(|| install(&mut fresh, Bound::Unbounded, Bound::Unbounded))).is_none() {
                return vec![PANIC];
            }
            let wf = raw(&fresh);
            if (wf[2 * *v as usize], wf[2 * *v as usize + 1]) != (lo, hi) {
                return vec![-78];
            }
            let landing = LANDING.as_ptr() as u64;
            let (cs, ss) = (CS::get_reg().0 as u64, SS::get_reg().0 as u64);
            let fl = 0x202 | (rflags & FLAG_MASK);
            let mut frame = [0u64, cs, fl, landing + 8 * rsp_off, ss];
            let has_err = ERR_VECTORS.contains(v) as u64;
            REC = Rec::default();
            GH_SAVE[4] = 0; GH_SAVE[5] = 0; GH_SAVE[7] = 0;
            enter(0, target, &mut frame, *k, has_err, *err);
            let rec = REC;
            let escaped = GH_SAVE[6];
            let mut out: Vec<i128> = vec![rec.count as i128, rec.idx as i128, rec.err_some as i128, rec.err as i128];
            // the frame the handler saw, relative to what was pushed
            out.push((rec.cs == cs) as i128);
            out.push((rec.rflags == fl) as i128);
            out.push(((rec.rsp.wrapping_sub(landing)) / 8) as i128);
            out.push((rec.ss == ss) as i128);
            out.push(escaped as i128);
            if escaped == 0 {
                // where execution resumed: 16 - (number of sled instructions executed) = k
                out.push(16 - GH_SAVE[7] as i128);
                out.push(((GH_SAVE[4].wrapping_sub(landing)) / 8) as i128);
                out.push((GH_SAVE[5] & FLAG_MASK) as i128);
                // the handler saw the pushed RIP
                out.push((rec.rip == GH_SAVE[8]) as i128);
            }
            out
        },
        [3, k, rsp_off, rflags] if *k < 16 && *rsp_off < 4000 => unsafe {
            let landing = LANDING.as_ptr() as u64;
            let fl = 0x202 | (rflags & FLAG_MASK);
            let f = InterruptStackFrameValue::new(VirtAddr::new(0), CS::get_reg(), RFlags::from_bits_retain(fl), VirtAddr::new(landing + 8 * rsp_off), SS::get_reg());
            // the instruction pointer is filled in by the trampoline (it is the resume address)
            let mut words: [u64; 5] = core::mem::transmute(f);
            let _: SegmentSelector = CS::get_reg();
            // the wrapper type's constructor must build the same hardware image (rip, cs, rflags, rsp, ss),
            // also when the two selectors differ
            {
                let (c2, s2) = (SegmentSelector(0x1233), SegmentSelector(0x452b));
                let a = InterruptStackFrame::new(VirtAddr::new(0x1111), c2, RFlags::from_bits_retain(fl), VirtAddr::new(0x2222), s2);
                let b = InterruptStackFrameValue::new(VirtAddr::new(0x1111), c2, RFlags::from_bits_retain(fl), VirtAddr::new(0x2222), s2);
                let wa: [u64; 5] = core::mem::transmute_copy(&*a);
                let wb: [u64; 5] = core::mem::transmute(b);
                if wa != wb || wb[0] != 0x1111 || wb[1] & 0xffff != 0x1233 || wb[2] != fl || wb[3] != 0x2222 || wb[4] & 0xffff != 0x452b {
                    return vec![-77];
                }
            }
            GH_SAVE[4] = 0; GH_SAVE[5] = 0; GH_SAVE[7] = 0;
            enter(1, do_iretq as usize as u64, &mut words, *k, 0, 0);
            vec![16 - GH_SAVE[7] as i128, ((GH_SAVE[4].wrapping_sub(landing)) / 8) as i128, (GH_SAVE[5] & FLAG_MASK) as i128]
        },
        _ => vec![-99],
    }
}
