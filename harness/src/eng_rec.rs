//! Engine "rec": RecursivePageTable::new on a table placed at a chosen virtual address (CR3 is the
//! software CPU's), and the recursive table addresses through hook H3.
//! Mirrors coq/theories/Paging/RecNew.v (`run_rec`).
use crate::softcpu;
use crate::util::*;
use x86_64::structures::paging::mapper::{verif_p1_page, verif_p2_page, verif_p3_page, InvalidPageTable, RecursivePageTable};
use x86_64::structures::paging::{Page, PageTable, PageTableIndex, Size1GiB, Size2MiB, Size4KiB};
use x86_64::VirtAddr;

fn filler(j: u64) -> u64 {
    ((j + 1) << 12) | 1
}

fn new_at(table_addr: u64, cr3: u64, slot: u64, e: u64) -> Vec<i128> {
    unsafe {
        let p = libc::mmap(table_addr as *mut libc::c_void, 4096, libc::PROT_READ | libc::PROT_WRITE, libc::MAP_PRIVATE | libc::MAP_ANONYMOUS | libc::MAP_FIXED_NOREPLACE, -1, 0);
        if p == libc::MAP_FAILED || p as u64 != table_addr {
            if p != libc::MAP_FAILED { libc::munmap(p, 4096); }
            return vec![-98]; // the harness could not place a table there
        }
        let words = table_addr as *mut u64;
        for j in 0..512u64 {
            words.add(j as usize).write_volatile(if j == slot { e } else { filler(j) });
        }
        softcpu::install_once();
        softcpu::cpu().reset();
        softcpu::cpu().cr[3] = cr3;
        let table: &mut PageTable = &mut *(table_addr as *mut PageTable);
        let r = catch(std::panic::AssertUnwindSafe(|| match RecursivePageTable::new(table) {
            Ok(m) => {
                // the recursive index is private: read it from the derived Debug output
                let d = format!("{:?}", m);
                let idx = d.rsplit("recursive_index: PageTableIndex(").next().and_then(|t| t.split(')').next()).and_then(|t| t.trim().trim_end_matches(',').trim().parse::<i128>().ok());
                match idx { Some(i) => vec![0, i], None => vec![-97] }
            }
            // the reason is also reported as text (Display): it must name the same reason
            Err(e @ InvalidPageTable::NotRecursive) => { let t = e.to_string(); if t.contains("recursive") && !t.contains("active") { vec![-30] } else { vec![-94] } }
            Err(e @ InvalidPageTable::NotActive) => { let t = e.to_string(); if t.contains("active") && !t.contains("recursive") { vec![-31] } else { vec![-94] } }
        }));
        // the table must not have been modified by the constructor
        let mut changed = false;
        for j in 0..512u64 {
            if words.add(j as usize).read_volatile() != (if j == slot { e } else { filler(j) }) { changed = true; }
        }
        libc::munmap(p, 4096);
        match r { None => vec![PANIC], Some(_) if changed => vec![-96], Some(v) => v }
    }
}

/// RecursivePageTable::new on a table reference whose address the harness cannot back with memory
/// (upper-half addresses: recursive indices 256..511): a forked child calls the constructor; it either
/// returns NotRecursive without touching the table (exit 43) or goes on to read CR3 (exit 42: the
/// address was accepted as being of the recursive form), which the software CPU turns into an exit
fn form_only(table_addr: u64) -> Vec<i128> {
    unsafe {
        let pid = libc::fork();
        if pid == 0 {
            softcpu::install_once();
            softcpu::cpu().reset();
            softcpu::EXIT_ON_CR3_READ.store(true, std::sync::atomic::Ordering::SeqCst);
            let table: &mut PageTable = &mut *(table_addr as *mut PageTable);
            let code = match catch(std::panic::AssertUnwindSafe(|| RecursivePageTable::new(table).map(|_| ()))) {
                Some(Ok(())) => 45,
                Some(Err(InvalidPageTable::NotRecursive)) => 43,
                Some(Err(InvalidPageTable::NotActive)) => 44,
                None => 46,
            };
            libc::_exit(code);
        }
        let mut st: libc::c_int = 0;
        libc::waitpid(pid, &mut st, 0);
        if libc::WIFEXITED(st) { vec![libc::WEXITSTATUS(st) as i128] } else { vec![-95] }
    }
}

pub fn run(c: &[u64]) -> Vec<i128> {
    match c {
        [1, table_addr, cr3, slot, e] => new_at(*table_addr, *cr3, *slot, *e),
        [5, table_addr] => form_only(*table_addr),
        [f @ 2..=4, page, r] => {
            let r16 = *r as u16;
            let res = catch(|| {
                let ri = PageTableIndex::new(r16);
                let va = VirtAddr::new(*page);
                let p4k: Page<Size4KiB> = Page::from_start_address(va).unwrap();
                let out = match f {
                    2 => {
                        let a = verif_p3_page(p4k, ri).start_address().as_u64();
                        // the other instantiations must agree when the page is a page of that size too
                        if let Ok(p) = Page::<Size2MiB>::from_start_address(va) { if verif_p3_page(p, ri).start_address().as_u64() != a { return vec![-77]; } }
                        if let Ok(p) = Page::<Size1GiB>::from_start_address(va) { if verif_p3_page(p, ri).start_address().as_u64() != a { return vec![-77]; } }
                        a
                    }
                    3 => {
                        let a = verif_p2_page(p4k, ri).start_address().as_u64();
                        if let Ok(p) = Page::<Size2MiB>::from_start_address(va) { if verif_p2_page(p, ri).start_address().as_u64() != a { return vec![-77]; } }
                        a
                    }
                    _ => verif_p1_page(p4k, ri).start_address().as_u64(),
                };
                vec![out as i128]
            });
            res.unwrap_or_else(|| vec![PANIC])
        }
        _ => vec![-99],
    }
}
