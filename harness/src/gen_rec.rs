//! Generator and oracle for C20 (engine "rec").  The oracle computes the recursive form and
//! the recursive addresses by its own arithmetic (octal digit composition), not by the model.
use crate::util::*;
use std::collections::{BTreeMap, HashSet};
use std::io::Write;

fn emit(out: &mut impl Write, c: &[u64]) {
    writeln!(out, "{}", fmt_case(c)).unwrap();
}
fn compose(i4: u64, i3: u64, i2: u64, i1: u64) -> u64 {
    let a = (i4 << 39) | (i3 << 30) | (i2 << 21) | (i1 << 12);
    if i4 >= 256 { a | 0xffff_0000_0000_0000 } else { a }
}
/// lower-half indices at which the harness can place a page (not the null page, not where the
/// process image / stack live)
fn placeable(i: u64) -> bool {
    // 168..=174: where the kernel places a PIE image and its heap (0x55..-0x56.. plus up to 1 TiB of ASLR);
    // above 250: the mmap area and the stack (up to 1 TiB below 0x7fff_ffff_f000)
    i >= 1 && i <= 250 && !(168..=174).contains(&i)
}

pub fn gen(seed: u64, thorough: bool, out: &mut impl Write) {
    let mut rng = Rng::new(seed ^ 0xc20);
    // ---- new(): every placeable recursive index x entry/CR3 variants
    for r in 0..256u64 {
        if !placeable(r) { continue; }
        let addr = compose(r, r, r, r);
        let frame = 0x1000 * (1 + rng.below(1 << 30));
        let cr3_variants = [frame, frame | 0x18, frame | 0xfff, frame | (1 << 63), frame | 0xfff0_0000_0000_0000];
        for (vi, cr3) in cr3_variants.iter().enumerate() {
            if !thorough && vi > 1 && r % 8 != 0 { continue; }
            // active: present entry pointing at the CR3 frame, with assorted flag bits
            for fl in [1u64, 3, 0x8000_0000_0000_0063, 0x87, 0x1 | (1 << 52)] {
                emit(out, &[1, addr, *cr3, r, frame | fl]);
            }
            // not active: not present / other frame / neighbour frame / right entry in the wrong slot
            emit(out, &[1, addr, *cr3, r, frame]);               // PRESENT clear
            emit(out, &[1, addr, *cr3, r, 0]);
            emit(out, &[1, addr, *cr3, r, (frame ^ 0x1000) | 1]);
            emit(out, &[1, addr, *cr3, r, (frame + (1 << 40)) | 1]);
            emit(out, &[1, addr, *cr3, (r + 1) % 512, frame | 1]);
            emit(out, &[1, addr, *cr3, (r + 511) % 512, frame | 1]);
        }
        // a filler entry happens to be active: CR3 = filler frame of slot r
        emit(out, &[1, addr, (r + 1) << 12, 600, 0]);
        emit(out, &[1, addr, (r + 2) << 12, 600, 0]);
        // not recursive: two or three indices off in every pattern (pairs that agree with each other but not
        // with the level-4 index included); the entry is "active" everywhere
        {
            let o = if placeable(r + 1) { r + 1 } else { r - 1 };
            for (i3, i2, i1) in [(r, o, o), (o, o, r), (o, r, o), (o, o, o)] {
                emit(out, &[1, compose(r, i3, i2, i1), frame, r, frame | 1]);
            }
        }
        // not recursive: one index off, each position; the entry is "active" everywhere
        for pos in 0..3 {
            let o = if placeable(r + 1) { r + 1 } else { r - 1 };
            let (i3, i2, i1) = match pos { 0 => (o, r, r), 1 => (r, o, r), _ => (r, r, o) };
            emit(out, &[1, compose(r, i3, i2, i1), frame, r, frame | 1]);
        }
    }
    // random non-recursive / recursive placements
    let n = if thorough { 6000 } else { 600 };
    for _ in 0..n {
        let pick = |rng: &mut Rng| loop { let i = rng.below(251); if placeable(i) { return i; } };
        let r = pick(&mut rng);
        let idx = [r, if rng.chance(3, 4) { r } else { rng.below(512) }, if rng.chance(3, 4) { r } else { rng.below(512) }, if rng.chance(3, 4) { r } else { rng.below(512) }];
        let frame = 0x1000 * rng.below(1 << 40);
        let e = if rng.chance(2, 3) { frame | 1 | (rng.next() & 0xfff0_0000_0000_0ffe) } else { rng.next() };
        let slot = if rng.chance(5, 6) { r } else { rng.below(512) };
        emit(out, &[1, compose(idx[0], idx[1], idx[2], idx[3]), frame | (rng.next() & 0xfff), slot, e]);
    }
    // ---- new() on upper-half table references (recursive indices 256..511, which no user process can
    // back with memory): only the form check is observable - NotRecursive, or on to the CR3 read
    for r in 256..512u64 {
        emit(out, &[5, compose(r, r, r, r)]);
        if r % 16 == 0 || r >= 509 || thorough {
            let o = if r == 511 { 510 } else { r + 1 };
            emit(out, &[5, compose(r, o, r, r)]);
            emit(out, &[5, compose(r, r, o, r)]);
            emit(out, &[5, compose(r, r, r, o)]);
            emit(out, &[5, compose(o, r, r, r)]);
            emit(out, &[5, compose(r, r, o, o)]);
            emit(out, &[5, compose(r, o, o, r)]);
            emit(out, &[5, compose(r, o, o, o)]);
        }
    }
    // ---- recursive addresses: every recursive index x pages with edge / random indices
    let edge = [0u64, 1, 255, 256, 510, 511];
    for r in 0..512u64 {
        for &a in &edge {
            for &b in &edge {
                emit(out, &[2, compose(a, b, 0, 0), r]);
                emit(out, &[3, compose(a, b, 0, 0), r]);
                emit(out, &[3, compose(b, a, r, 0), r]);
                emit(out, &[4, compose(a, b, a, 0), r]);
                emit(out, &[4, compose(r, a, b, r), r]);
            }
        }
        let m = if thorough { 200 } else { 12 };
        for _ in 0..m {
            let p = compose(rng.below(512), rng.below(512), rng.below(512), rng.below(512));
            emit(out, &[2 + rng.below(3), p, r]);
        }
    }
}

fn idx(a: u64, l: u32) -> u64 {
    (a >> (12 + 9 * l)) & 0x1ff
}
fn judge(c: &[u64], a: &[i128]) -> (Option<&'static str>, bool) {
    match c {
        [1, addr, cr3, slot, e] => {
            let r = idx(*addr, 3);
            let rec = idx(*addr, 2) == r && idx(*addr, 1) == r && idx(*addr, 0) == r;
            let entry = if *slot == r { *e } else { ((r + 1) << 12) | 1 };
            let active = entry & 1 != 0 && entry & 0x000f_ffff_ffff_f000 == cr3 & 0x000f_ffff_ffff_f000;
            let nt = !rec || !active || r > 1;
            // the harness could not map a page at that address in this run of the process (address-space layout
            // randomisation put something there): nothing was asked of the crate, the case says nothing
            if a == [-98] { return (None, false); }
            if a == [-96] { return (Some("the constructor modified the table"), nt); }
            if a == [-94] { return (Some("the textual form (Display) of the reported error names the other reason"), nt); }
            let want: Vec<i128> = if !rec { vec![-30] } else if !active { vec![-31] } else { vec![0, r as i128] };
            if a != want.as_slice() {
                return (Some(if !rec { "a table reference whose address is not of the recursive form must be reported NotRecursive" }
                    else if !active { "a recursive slot that does not point to the frame loaded in CR3 must be reported NotActive" }
                    else if a.first() == Some(&0) { "the recursive index used must be the common index of the table address" }
                    else { "a recursive, active table must be accepted" }), nt);
            }
            (None, nt)
        }
        [5, addr] => {
            let r = idx(*addr, 3);
            let rec = idx(*addr, 2) == r && idx(*addr, 1) == r && idx(*addr, 0) == r;
            if a == [-95] { return (Some("the constructor dereferenced the table before validating its address and reading CR3"), true); }
            if rec && a != [42] { return (Some("a table reference of the recursive form (upper half) must be accepted as recursive: the constructor must go on to compare its slot with CR3"), true); }
            if !rec && a != [43] { return (Some("a table reference whose address is not of the recursive form must be reported NotRecursive"), true); }
            (None, true)
        }
        [f @ 2..=4, page, r] => {
            let (p4, p3, p2) = (idx(*page, 3), idx(*page, 2), idx(*page, 1));
            let digits = match f { 2 => [*r, *r, *r, p4], 3 => [*r, *r, p4, p3], _ => [*r, p4, p3, p2] };
            let mut want = (digits[0] << 39) | (digits[1] << 30) | (digits[2] << 21) | (digits[3] << 12);
            if want & (1 << 47) != 0 { want |= 0xffff_0000_0000_0000; }
            let nt = *r >= 256 || p4 >= 256 || *r == 0 || *r == 511;
            if a != [want as i128] {
                return (Some("the recursive table address must be the recursive index repeated 3/2/1 times followed by the page's upper indices, sign-extended"), nt);
            }
            (None, nt)
        }
        _ => (Some("malformed case"), false),
    }
}

pub fn oracle() {
    use std::io::BufRead;
    let args: Vec<String> = std::env::args().collect();
    let cases = std::io::BufReader::new(std::fs::File::open(&args[3]).unwrap());
    let answers = std::io::BufReader::new(std::fs::File::open(&args[4]).unwrap());
    let (mut evals, mut nfails) = (0u64, 0u64);
    let mut distinct: HashSet<String> = HashSet::new();
    let mut mix: BTreeMap<String, u64> = BTreeMap::new();
    for (ln, (cl, al)) in cases.lines().zip(answers.lines()).enumerate() {
        let (cl, al) = (cl.unwrap(), al.unwrap());
        let c = parse_line(&cl);
        let a: Vec<i128> = al.split_ascii_whitespace().map(|t| if let Some(r) = t.strip_prefix('-') { -(i128::from_str_radix(r, 16).unwrap()) } else { i128::from_str_radix(t, 16).unwrap() }).collect();
        evals += 1;
        let key = match (c.first(), a.first()) { (Some(1), Some(-98)) => "new:unplaceable_in_this_run", (Some(1), Some(0)) => "new:ok", (Some(1), Some(-30)) => "new:not_recursive", (Some(1), Some(-31)) => "new:not_active", (Some(1), _) => "new:other", (Some(2), _) => "p3_page", (Some(3), _) => "p2_page", (Some(5), _) => "new:upper_half_form", _ => "p1_page" };
        *mix.entry(key.to_string()).or_default() += 1;
        let (f, nt) = judge(&c, &a);
        if nt { distinct.insert(cl.clone()); }
        if let Some(clause) = f {
            nfails += 1;
            if nfails <= 30 { println!("FAIL {} | {} | {} | {}", ln + 1, cl, al, clause); }
        }
    }
    // placement failures are tolerated case by case, not wholesale
    let unplaced = mix.get("new:unplaceable_in_this_run").copied().unwrap_or(0);
    let placed: u64 = mix.iter().filter(|(k, _)| k.starts_with("new:") && !k.contains("unplaceable") && !k.contains("upper_half")).map(|(_, v)| *v).sum();
    if unplaced * 4 > placed {
        nfails += 1;
        println!("FAIL 0 | - | - | harness: more than a fifth of the constructor cases could not be placed in this process");
    }
    let m = mix.iter().map(|(k, v)| format!("\"{}\":{}", k, v)).collect::<Vec<_>>().join(",");
    println!("SUMMARY {{\"evaluations\":{},\"oracle_failures\":{},\"distinct_nontrivial\":{},\"mix\":{{{}}}}}", evals, nfails, distinct.len(), m);
}
