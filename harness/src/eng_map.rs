//! Mapper engine: one call history on the real mappers over simulated physical memory.
//! Mirrors coq/theories/Paging/Run.v (`run_map`).
use crate::physmem::{self, hw_walk};
use crate::softcpu;
use crate::util::*;
use std::panic::AssertUnwindSafe;
use std::sync::atomic::Ordering;
use x86_64::structures::paging::mapper::{
    CleanUp, FlagUpdateError, MapToError, MappedFrame, MappedPageTable, Mapper, OffsetPageTable, PageTableFrameMapping,
    RecursivePageTable, Translate, TranslateError, TranslateResult, UnmapError,
};
use x86_64::structures::paging::{
    FrameAllocator, FrameDeallocator, Page, PageSize, PageTable, PageTableFlags, PageTableIndex, PhysFrame, Size1GiB,
    Size2MiB, Size4KiB,
};
use x86_64::{PhysAddr, VirtAddr};

const SEP: i128 = -3;
const FAULT: i128 = -20;
const LINKED_AT_FREE: i128 = -21;
const BAD_REC_ADDR: i128 = -22;

pub struct Alloc {
    pub list: Vec<i64>,
    pub next: usize,
    pub calls: u64,
    pub freed: Vec<u64>,
    pub root: u64,
    /// frames that were handed to the deallocator while an entry of a page table of the
    /// hierarchy (the level-4 table or a frame obtained from this allocator) still pointed to them
    pub linked_at_free: Vec<u64>,
}
unsafe impl FrameAllocator<Size4KiB> for Alloc {
    fn allocate_frame(&mut self) -> Option<PhysFrame<Size4KiB>> {
        self.calls += 1;
        let r = self.list.get(self.next).copied();
        self.next += 1;
        match r {
            Some(f) if f >= 0 => Some(PhysFrame::containing_address(PhysAddr::new(f as u64))),
            _ => None,
        }
    }
}
impl FrameDeallocator<Size4KiB> for Alloc {
    unsafe fn deallocate_frame(&mut self, frame: PhysFrame<Size4KiB>) {
        let f = frame.start_address().as_u64();
        let mut tabs: Vec<u64> = vec![self.root];
        tabs.extend(self.list[..self.next.min(self.list.len())].iter().filter(|x| **x >= 0).map(|x| *x as u64 & !0xfff));
        'scan: for t in tabs {
            if t == f { continue; }
            for i in 0..512u64 {
                let w = physmem::read(t + 8 * i);
                if w & 1 == 1 && w & 0x000f_ffff_ffff_f000 == f {
                    self.linked_at_free.push(f);
                    break 'scan;
                }
            }
        }
        self.freed.push(f);
    }
}

struct Perm;
unsafe impl PageTableFrameMapping for Perm {
    fn frame_to_pointer(&self, frame: PhysFrame) -> *mut PageTable {
        physmem::host(frame.start_address().as_u64()) as *mut PageTable
    }
}

fn pg<S: PageSize>(a: u64) -> Page<S> {
    Page::from_start_address(VirtAddr::new(a)).unwrap()
}
fn fr<S: PageSize>(a: u64) -> PhysFrame<S> {
    PhysFrame::from_start_address(PhysAddr::new(a)).unwrap()
}
fn fl(b: u64) -> PageTableFlags {
    PageTableFlags::from_bits(b).unwrap()
}
fn map_err<S: PageSize>(e: MapToError<S>) -> Vec<i128> {
    match e {
        MapToError::FrameAllocationFailed => vec![-10],
        MapToError::ParentEntryHugePage => vec![-11],
        MapToError::PageAlreadyMapped(f) => vec![-12, f.start_address().as_u64() as i128],
    }
}
fn unmap_err(e: UnmapError) -> Vec<i128> {
    match e {
        UnmapError::ParentEntryHugePage => vec![-11],
        UnmapError::PageNotMapped => vec![-13],
        UnmapError::InvalidFrameAddress(a) => vec![-14, a.as_u64() as i128],
    }
}
fn flag_err(e: FlagUpdateError) -> Vec<i128> {
    match e {
        FlagUpdateError::PageNotMapped => vec![-13],
        FlagUpdateError::ParentEntryHugePage => vec![-11],
    }
}
fn tr_err(e: TranslateError) -> Vec<i128> {
    match e {
        TranslateError::PageNotMapped => vec![-13],
        TranslateError::ParentEntryHugePage => vec![-11],
        TranslateError::InvalidFrameAddress(a) => vec![-14, a.as_u64() as i128],
    }
}

/// executes a page flush token under the software CPU and checks that it is exactly one INVLPG of `page`
fn flush_page_token_ok(flush: impl FnOnce(), page: u64) -> bool {
    let c = softcpu::cpu();
    c.take_log();
    flush();
    let log = c.take_log();
    log.len() == 1 && log[0].op == softcpu::Op::Invlpg && log[0].a == page
}
/// executes a flush-all token: exactly MOV from CR3, then MOV to CR3 of the value just read
fn flush_all_token_ok(flush: impl FnOnce()) -> bool {
    let c = softcpu::cpu();
    c.take_log();
    let before = c.cr[3];
    flush();
    let log = c.take_log();
    log.len() == 2 && log[0].op == softcpu::Op::MovFromCr && log[0].a == 3 && log[1].op == softcpu::Op::MovToCr && log[1].a == 3 && log[1].b == before && c.cr[3] == before
}
const BAD_FLUSH: i128 = -23;

fn ops_sized<S: PageSize, M: Mapper<S>>(m: &mut M, a: &mut Alloc, op: &[u64]) -> Vec<i128> {
    unsafe {
        match op {
            [1, _, page, frame, flags] => match m.map_to(pg::<S>(*page), fr::<S>(*frame), fl(*flags), a) {
                Ok(f) => { let p = f.page().start_address().as_u64(); if !flush_page_token_ok(|| f.flush(), p) { return vec![BAD_FLUSH]; } vec![0, p as i128] }
                Err(e) => map_err(e),
            },
            [2, _, page, frame, flags, pflags] => match m.map_to_with_table_flags(pg::<S>(*page), fr::<S>(*frame), fl(*flags), fl(*pflags), a) {
                Ok(f) => { let p = f.page().start_address().as_u64(); if !flush_page_token_ok(|| f.flush(), p) { return vec![BAD_FLUSH]; } vec![0, p as i128] }
                Err(e) => map_err(e),
            },
            [3, _, frame, flags] => match m.identity_map(fr::<S>(*frame), fl(*flags), a) {
                Ok(f) => { let p = f.page().start_address().as_u64(); if !flush_page_token_ok(|| f.flush(), p) { return vec![BAD_FLUSH]; } vec![0, p as i128] }
                Err(e) => map_err(e),
            },
            [4, _, page] => match m.unmap(pg::<S>(*page)) {
                Ok((f, t)) => { let p = t.page().start_address().as_u64(); if !flush_page_token_ok(|| t.flush(), p) { return vec![BAD_FLUSH]; } vec![0, f.start_address().as_u64() as i128, p as i128] }
                Err(e) => unmap_err(e),
            },
            [5, _, page, flags] => match m.update_flags(pg::<S>(*page), fl(*flags)) {
                Ok(t) => { let p = t.page().start_address().as_u64(); if !flush_page_token_ok(|| t.flush(), p) { return vec![BAD_FLUSH]; } vec![0, p as i128] }
                Err(e) => flag_err(e),
            },
            [6, _, level, page, flags] => {
                let r = match level { 4 => m.set_flags_p4_entry(pg::<S>(*page), fl(*flags)), 3 => m.set_flags_p3_entry(pg::<S>(*page), fl(*flags)), _ => m.set_flags_p2_entry(pg::<S>(*page), fl(*flags)) };
                match r { Ok(t) => { if !flush_all_token_ok(|| t.flush_all()) { return vec![BAD_FLUSH]; } vec![0] } Err(e) => flag_err(e) }
            }
            [7, _, page] => match m.translate_page(pg::<S>(*page)) {
                Ok(f) => vec![0, f.start_address().as_u64() as i128],
                Err(e) => tr_err(e),
            },
            _ => vec![-99],
        }
    }
}

fn do_op<M>(m: &mut M, a: &mut Alloc, root: u64, frames: &[u64], op: &[u64]) -> Vec<i128>
where
    M: Mapper<Size4KiB> + Mapper<Size2MiB> + Mapper<Size1GiB> + Translate + CleanUp,
{
    match op {
        [1..=7, k, ..] => match k {
            0 => ops_sized::<Size4KiB, M>(m, a, op),
            1 => ops_sized::<Size2MiB, M>(m, a, op),
            _ => ops_sized::<Size1GiB, M>(m, a, op),
        },
        [8, va] => match m.translate(VirtAddr::new(*va)) {
            TranslateResult::Mapped { frame, offset, flags } => {
                let sz = match frame { MappedFrame::Size4KiB(_) => 4096, MappedFrame::Size2MiB(_) => 1 << 21, MappedFrame::Size1GiB(_) => 1i128 << 30 };
                if sz != frame.size() as i128 { return vec![-77]; }
                vec![0, sz, frame.start_address().as_u64() as i128, offset as i128, flags.bits() as i128]
            }
            TranslateResult::NotMapped => vec![-13],
            TranslateResult::InvalidFrameAddress(a) => vec![-14, a.as_u64() as i128],
        },
        [9, va] => o(m.translate_addr(VirtAddr::new(*va)).map(|p| p.as_u64())),
        [10] => { unsafe { m.clean_up(a) }; vec![0] }
        [11, rs, re] => { unsafe { m.clean_up_addr_range(Page::range_inclusive(pg::<Size4KiB>(*rs), pg::<Size4KiB>(*re)), a) }; vec![0] }
        [12, va] => match hw_walk(root, *va) {
            Some(w) => vec![w.phys as i128, w.size as i128, w.leaf as i128, w.writable as i128, w.user as i128],
            None => vec![NONE],
        },
        [13] => if PROJECT.load(Ordering::SeqCst) { vec![] } else { frames.iter().map(|f| physmem::checksum(*f) as i128).collect() },
        [14] => a.freed.iter().map(|f| *f as i128).collect(),
        _ => vec![-99],
    }
}

fn arity(opc: u64) -> usize {
    match opc { 1 => 4, 2 => 5, 3 => 3, 4 => 2, 5 => 3, 6 => 4, 7 => 2, 8 | 9 | 12 => 1, 11 => 2, _ => 0 }
}

fn run_history<M>(m: &mut M, a: &mut Alloc, root: u64, frames: &[u64], ops: &[u64], rec: bool) -> Vec<i128>
where
    M: Mapper<Size4KiB> + Mapper<Size2MiB> + Mapper<Size1GiB> + Translate + CleanUp,
{
    let mut out = vec![];
    let mut i = 0;
    while i < ops.len() {
        let n = arity(ops[i]);
        if i + 1 + n > ops.len() {
            break;
        }
        let op = &ops[i..i + 1 + n];
        i += 1 + n;
        physmem::FAULTED.store(false, Ordering::SeqCst);
        physmem::MMU_ENABLED.store(rec, Ordering::SeqCst);
        let r = catch(AssertUnwindSafe(|| do_op(m, a, root, frames, op)));
        physmem::MMU_ENABLED.store(false, Ordering::SeqCst);
        let mmu_log = physmem::drop_aliases();
        // C20, behaviourally: every virtual address the recursive mapper dereferenced during a call on
        // page P must be the recursive address of P's level-3, level-2 or level-1 table
        // (r,r,r,p4 / r,r,p4,p3 / r,p4,p3,p2, sign-extended), computed here from the index digits
        let mut bad_recursive_address = false;
        if rec {
            let ri = physmem::REC_INDEX.load(Ordering::SeqCst);
            let compose = |a: u64, b: u64, c: u64, d: u64| -> u64 {
                let v = (a << 39) | (b << 30) | (c << 21) | (d << 12);
                if a >= 256 { v | 0xffff_0000_0000_0000 } else { v }
            };
            let page_arg: Option<u64> = match op[0] { 1 | 2 | 3 | 4 | 5 | 7 => Some(op[2]), 6 => Some(op[3]), 8 | 9 => Some(op[1]), _ => None };
            for (va, _frame) in &mmu_log {
                let ok = match page_arg {
                    Some(p) => {
                        let (p4, p3, p2) = ((p >> 39) & 511, (p >> 30) & 511, (p >> 21) & 511);
                        *va == compose(ri, ri, ri, p4) || *va == compose(ri, ri, p4, p3) || *va == compose(ri, p4, p3, p2)
                    }
                    // clean-up visits the tables of many pages: the address must at least lie in the recursive region
                    None => (*va >> 39) & 511 == ri,
                };
                if !ok { bad_recursive_address = true; }
            }
        }
        match r {
            None => {
                out.push(PANIC);
                return out;
            }
            Some(v) => {
                let faulted = physmem::FAULTED.load(Ordering::SeqCst);
                if faulted { out.push(FAULT); } else if bad_recursive_address { out.push(BAD_REC_ADDR); } else if !a.linked_at_free.is_empty() { out.push(LINKED_AT_FREE); } else { out.extend(v); }
                out.push(a.calls as i128);
                out.push(a.freed.len() as i128);
                out.push(SEP);
                if faulted || bad_recursive_address || !a.linked_at_free.is_empty() {
                    return out;
                }
            }
        }
    }
    out
}

fn run_inner(c: &[u64]) -> Vec<i128> {
    if c.len() < 5 {
        return vec![-99];
    }
    let (kind, r, root, na) = (c[0], c[1], c[2], c[3] as usize);
    if c.len() < 4 + na + 1 {
        return vec![-99];
    }
    let allocs: Vec<i64> = c[4..4 + na].iter().map(|x| *x as i64).collect();
    let nd = c[4 + na] as usize;
    let frames: Vec<u64> = c[5 + na..5 + na + nd].to_vec();
    let ops = &c[5 + na + nd..];
    physmem::init();
    softcpu::install_once();
    physmem::XOR_MASK.store(if kind == 2 { 0x0000_0003_5a00_0000 & !0xfff } else { 0 }, Ordering::SeqCst);
    physmem::MMU_ROOT.store(root, Ordering::SeqCst);
    softcpu::cpu().reset();
    softcpu::cpu().cr[3] = root | 0x5a5;     // what a flush-all token must write back unchanged
    // memory pre-filled with arbitrary non-zero words; the level-4 table starts empty
    for f in &frames {
        physmem::fill_background(*f);
    }
    physmem::zero_frame(root);
    let mut a = Alloc { list: allocs, next: 0, calls: 0, freed: vec![], root, linked_at_free: vec![] };
    let p4: &mut PageTable = unsafe { &mut *(physmem::host(root) as *mut PageTable) };
    match kind {
        0 => {
            let mut m = unsafe { OffsetPageTable::new(p4, VirtAddr::new(physmem::base())) };
            run_history(&mut m, &mut a, root, &frames, ops, false)
        }
        2 => {
            let mut m = unsafe { MappedPageTable::new(p4, Perm) };
            run_history(&mut m, &mut a, root, &frames, ops, false)
        }
        _ => {
            // the recursive slot: entry r of the root points to the root
            physmem::write(root + 8 * r, root | 3);
            physmem::REC_INDEX.store(r, Ordering::SeqCst);
            let mut m = unsafe { RecursivePageTable::new_unchecked(p4, PageTableIndex::new(r as u16)) };
            run_history(&mut m, &mut a, root, &frames, ops, true)
        }
    }
}

pub fn run(c: &[u64]) -> Vec<i128> {
    PROJECT.store(false, Ordering::SeqCst);
    catch(|| run_inner(c)).unwrap_or_else(|| vec![PANIC])
}
/// the same run with the memory checksums of op 13 left out: what the abstract tree model answers
pub fn run_projected(c: &[u64]) -> Vec<i128> {
    PROJECT.store(true, Ordering::SeqCst);
    catch(|| run_inner(c)).unwrap_or_else(|| vec![PANIC])
}
static PROJECT: std::sync::atomic::AtomicBool = std::sync::atomic::AtomicBool::new(false);
