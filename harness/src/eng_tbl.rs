//! Descriptor-table engine (GDT, descriptors, TSS/pointer layouts, IDT).
//! Mirrors coq/theories/Tables/Run.v (`run_tbl`).
use crate::softcpu::{self, Op};
use crate::util::*;
use core::ops::Bound;
use std::panic::AssertUnwindSafe;
use x86_64::structures::gdt::{Descriptor, DescriptorFlags, GlobalDescriptorTable};
use x86_64::structures::idt::{Entry, EntryOptions, HandlerFunc, InterruptDescriptorTable};
use x86_64::structures::tss::TaskStateSegment;
use x86_64::structures::DescriptorTablePointer;
use x86_64::{PrivilegeLevel, VirtAddr};

fn mk_desc(kind: u64, lo: u64, hi: u64) -> Descriptor {
    if kind == 0 {
        Descriptor::UserSegment(lo)
    } else {
        Descriptor::SystemSegment(lo, hi)
    }
}

fn gdt_run<const MAX: usize>(mode: u64, l: &[u64]) -> Vec<i128> {
    match mode {
        1 | 3 => {
            let mut g = match catch(GlobalDescriptorTable::<MAX>::empty) {
                Some(g) => g,
                None => return vec![PANIC],
            };
            let mut v = vec![];
            for ch in l.chunks(3) {
                if ch.len() < 3 {
                    break;
                }
                let d = mk_desc(ch[0], ch[1], ch[2]);
                // an append that does not fit panics; the table must then be unchanged
                let r = std::panic::catch_unwind(AssertUnwindSafe(|| g.append(d)));
                v.push(match r {
                    Ok(sel) => sel.0 as i128,
                    Err(_) => PANIC,
                });
            }
            if mode == 3 {
                softcpu::install_once();
                let c = softcpu::cpu();
                c.reset();
                let gs: &'static GlobalDescriptorTable<MAX> = Box::leak(Box::new(g));
                gs.load();
                let log = c.take_log();
                if log.len() != 1 || log[0].op != Op::Lgdt {
                    return vec![-77];
                }
                let first = gs.entries().as_ptr() as u64;
                return vec![log[0].a as i128, log[0].b as i128 - first as i128];
            }
            v.push(g.entries().len() as i128);
            v.extend(g.entries().iter().map(|e| e.raw() as i128));
            v.push(g.limit() as i128);
            // Clone must be the same table
            let g2 = g.clone();
            if g2.entries() != g.entries() || g2.limit() != g.limit() {
                v.push(-77);
            }
            // ... also when cloned INTO an existing table with fewer or more used slots (Clone::clone_from)
            if let Some(mut g3) = catch(GlobalDescriptorTable::<MAX>::empty) {
                for filler in 0..(l.len() as u64 % 4) {
                    let _ = std::panic::catch_unwind(AssertUnwindSafe(|| g3.append(mk_desc(0, 0x00af_9b00_0000_ffff ^ filler, 0))));
                }
                g3.clone_from(&g);
                if g3.entries() != g.entries() || g3.limit() != g.limit() {
                    v.push(-77);
                }
                let mut g4 = g.clone();
                let fresh = GlobalDescriptorTable::<MAX>::empty();
                g4.clone_from(&fresh);
                if g4.entries() != fresh.entries() || g4.limit() != fresh.limit() {
                    v.push(-77);
                }
            }
            v
        }
        _ => match catch(|| GlobalDescriptorTable::<MAX>::from_raw_entries(l)) {
            Some(g) => {
                let mut v = vec![g.entries().len() as i128];
                v.extend(g.entries().iter().map(|e| e.raw() as i128));
                v.push(g.limit() as i128);
                v
            }
            None => vec![PANIC],
        },
    }
}

fn gdt_dispatch(mode: u64, max: u64, l: &[u64]) -> Vec<i128> {
    match max {
        0 => gdt_run::<0>(mode, l),
        1 => gdt_run::<1>(mode, l),
        2 => gdt_run::<2>(mode, l),
        3 => gdt_run::<3>(mode, l),
        8 => {
            // the default capacity has two more constructors (new, Default): each must give the table `empty` gives
            let e = GlobalDescriptorTable::<8>::empty();
            let same = |g: &GlobalDescriptorTable<8>| g.entries().iter().map(|x| x.raw()).collect::<Vec<u64>>() == e.entries().iter().map(|x| x.raw()).collect::<Vec<u64>>() && g.limit() == e.limit();
            if !same(&GlobalDescriptorTable::new()) || !same(&GlobalDescriptorTable::default()) {
                return vec![-77];
            }
            gdt_run::<8>(mode, l)
        }
        9 => gdt_run::<9>(mode, l),
        8192 => gdt_run::<8192>(mode, l),
        8193 => gdt_run::<8193>(mode, l),
        _ => vec![-99],
    }
}

fn table_bytes(idt: &InterruptDescriptorTable) -> &[u8] {
    unsafe { core::slice::from_raw_parts(idt as *const _ as *const u8, core::mem::size_of::<InterruptDescriptorTable>()) }
}
/// offset of `p` inside the table, or -77 when it does not point into it
fn off_in(idt: &InterruptDescriptorTable, p: *const u8) -> i128 {
    let base = idt as *const _ as usize;
    let q = p as usize;
    if q >= base && q < base + core::mem::size_of::<InterruptDescriptorTable>() + 1 {
        (q - base) as i128
    } else {
        -77
    }
}
/// write a marker gate through `e`, report which 16-byte window of the raw table changed
fn mark(idt: &mut InterruptDescriptorTable, f: impl FnOnce(&mut InterruptDescriptorTable) -> &mut EntryOptions) -> Vec<i128> {
    let before = table_bytes(idt).to_vec();
    let _ = f(idt);
    let after = table_bytes(idt);
    let changed: Vec<usize> = (0..before.len()).filter(|i| before[*i] != after[*i]).collect();
    if changed.is_empty() {
        return vec![-77];
    }
    let (lo, hi) = (changed[0], *changed.last().unwrap());
    if lo / 16 != hi / 16 {
        return vec![-78];
    }
    vec![(lo / 16 * 16) as i128]
}
extern "x86-interrupt" fn marker_handler(_f: x86_64::structures::idt::InterruptStackFrame) {}
const MARK_ADDR: u64 = 0x1234_5678_9abc;

fn idt_named(idt: &mut InterruptDescriptorTable, id: u64) -> Vec<i128> {
    let a = VirtAddr::new(MARK_ADDR);
    macro_rules! m {
        ($f:ident) => {
            mark(idt, |t| unsafe { t.$f.set_handler_addr(a) })
        };
    }
    match id {
        0 => m!(divide_error),
        1 => m!(debug),
        2 => m!(non_maskable_interrupt),
        3 => m!(breakpoint),
        4 => m!(overflow),
        5 => m!(bound_range_exceeded),
        6 => m!(invalid_opcode),
        7 => m!(device_not_available),
        8 => m!(double_fault),
        10 => m!(invalid_tss),
        11 => m!(segment_not_present),
        12 => m!(stack_segment_fault),
        13 => m!(general_protection_fault),
        14 => m!(page_fault),
        16 => m!(x87_floating_point),
        17 => m!(alignment_check),
        18 => m!(machine_check),
        19 => m!(simd_floating_point),
        20 => m!(virtualization),
        21 => m!(cp_protection_exception),
        28 => m!(hv_injection_exception),
        29 => m!(vmm_communication_exception),
        30 => m!(security_exception),
        _ => vec![PANIC],
    }
}

fn slice_via(idt: &mut InterruptDescriptorTable, form: u64, s: u8, e: u8, via: u64) -> Option<(i128, i128)> {
    let bk = |k: u64, v: u8| match k {
        0 => Bound::Included(v),
        1 => Bound::Excluded(v),
        _ => Bound::Unbounded,
    };
    // via: 0 slice(), 1 slice_mut(), 2 Index, 3 IndexMut, 4 Index with &u8 bounds
    let r: Option<(*const u8, usize)> = catch(|| {
        let sl: &[Entry<HandlerFunc>] = match (form, via) {
            (0..=8, 0) => idt.slice((bk(form / 3, s), bk(form % 3, e))),
            (0..=8, 1) => idt.slice_mut((bk(form / 3, s), bk(form % 3, e))),
            (0..=8, 2) => &idt[(bk(form / 3, s), bk(form % 3, e))],
            (0..=8, 3) => &mut idt[(bk(form / 3, s), bk(form % 3, e))],
            (0..=8, _) => {
                let bkr = |k: u64, v: &'static u8| match k {
                    0 => Bound::Included(v),
                    1 => Bound::Excluded(v),
                    _ => Bound::Unbounded,
                };
                let (sr, er): (&'static u8, &'static u8) = (Box::leak(Box::new(s)), Box::leak(Box::new(e)));
                &idt[(bkr(form / 3, sr), bkr(form % 3, er))]
            }
            (9, 0) => idt.slice(s..e),
            (9, 1) => idt.slice_mut(s..e),
            (9, 2) => &idt[s..e],
            (9, 3) => &mut idt[s..e],
            (9, _) => &idt[&s..&e],
            (10, 0) => idt.slice(s..),
            (10, 1) => idt.slice_mut(s..),
            (10, 2) => &idt[s..],
            (10, 3) => &mut idt[s..],
            (10, _) => &idt[&s..],
            (11, 0) => idt.slice(s..=e),
            (11, 1) => idt.slice_mut(s..=e),
            (11, 2) => &idt[s..=e],
            (11, 3) => &mut idt[s..=e],
            (11, _) => &idt[&s..=&e],
            (12, 0) => idt.slice(..e),
            (12, 1) => idt.slice_mut(..e),
            (12, 2) => &idt[..e],
            (12, 3) => &mut idt[..e],
            (12, _) => &idt[..&e],
            (13, 0) => idt.slice(..=e),
            (13, 1) => idt.slice_mut(..=e),
            (13, 2) => &idt[..=e],
            (13, 3) => &mut idt[..=e],
            (13, _) => &idt[..=&e],
            (_, 0) => idt.slice(..),
            (_, 1) => idt.slice_mut(..),
            (_, 3) => &mut idt[..],
            _ => &idt[..],
        };
        (sl.as_ptr() as *const u8, sl.len())
    });
    r.map(|(p, n)| (off_in(idt, p), n as i128))
}

fn words(e: &Entry<HandlerFunc>) -> (u64, u64) {
    let p = e as *const _ as *const u64;
    unsafe { (core::ptr::read_unaligned(p), core::ptr::read_unaligned(p.add(1))) }
}

fn run_inner(c: &[u64]) -> Vec<i128> {
    match c {
        [1, max, l @ ..] | [3, max, l @ ..] | [2, max, l @ ..] => gdt_dispatch(c[0], *max, l),
        [10, ptr] => match unsafe { Descriptor::tss_segment_unchecked(*ptr as *const TaskStateSegment) } {
            Descriptor::SystemSegment(lo, hi) => vec![lo as i128, hi as i128],
            _ => vec![-77],
        },
        [14, iomap, fill] => {
            // the safe constructor on a TSS with arbitrary contents: the descriptor is a function of the
            // TSS's ADDRESS only; reported as the difference to tss_segment_unchecked of that address
            static mut TSS: TaskStateSegment = TaskStateSegment::new();
            unsafe {
                let t = &mut *core::ptr::addr_of_mut!(TSS);
                t.iomap_base = *iomap as u16;
                let _ = fill;
                let tref: &'static TaskStateSegment = &*core::ptr::addr_of!(TSS);
                match (Descriptor::tss_segment(tref), Descriptor::tss_segment_unchecked(tref as *const TaskStateSegment)) {
                    (Descriptor::SystemSegment(lo, hi), Descriptor::SystemSegment(lo2, hi2)) => vec![(lo ^ lo2) as i128, (hi ^ hi2) as i128],
                    _ => vec![-77],
                }
            }
        }
        [11] => {
            let raw = |d: Descriptor| match d {
                Descriptor::UserSegment(v) => v as i128,
                _ => -77,
            };
            vec![
                DescriptorFlags::KERNEL_DATA.bits() as i128,
                DescriptorFlags::KERNEL_CODE32.bits() as i128,
                DescriptorFlags::KERNEL_CODE64.bits() as i128,
                DescriptorFlags::USER_DATA.bits() as i128,
                DescriptorFlags::USER_CODE32.bits() as i128,
                DescriptorFlags::USER_CODE64.bits() as i128,
                raw(Descriptor::kernel_code_segment()),
                raw(Descriptor::kernel_data_segment()),
                raw(Descriptor::user_data_segment()),
                raw(Descriptor::user_code_segment()),
            ]
        }
        [12, kind, lo, hi] => r(catch(|| mk_desc(*kind, *lo, *hi).dpl() as u8 as u64)),
        [13] => {
            let t = TaskStateSegment::new();
            let base = &t as *const _ as usize;
            // field offsets by address arithmetic on the packed structs
            let o1 = core::ptr::addr_of!(t.privilege_stack_table) as usize - base;
            let o3 = core::ptr::addr_of!(t.interrupt_stack_table) as usize - base;
            let o6 = core::ptr::addr_of!(t.iomap_base) as usize - base;
            let bytes: [u8; 104] = unsafe { core::mem::transmute_copy(&t) };
            let zero_except_iomap = bytes.iter().enumerate().all(|(i, b)| i == 102 || i == 103 || *b == 0);
            // reserved (private) fields: located by marking the public ones
            let iomap = t.iomap_base;
            let p = DescriptorTablePointer { limit: 0xabcd, base: VirtAddr::new(0x1122_3344_5566) };
            let pb = &p as *const _ as usize;
            let pbytes: [u8; 10] = unsafe { core::mem::transmute_copy(&p) };
            let lay_ok = u16::from_le_bytes([pbytes[0], pbytes[1]]) == 0xabcd && u64::from_le_bytes(pbytes[2..10].try_into().unwrap()) == 0x1122_3344_5566;
            let mut v = vec![0, o1 as i128, (o1 + 24) as i128, o3 as i128, (o3 + 56) as i128, (o6 - 2) as i128, o6 as i128, core::mem::size_of::<TaskStateSegment>() as i128, iomap as i128,
                (core::ptr::addr_of!(p.limit) as usize - pb) as i128, (core::ptr::addr_of!(p.base) as usize - pb) as i128, core::mem::size_of::<DescriptorTablePointer>() as i128];
            // every way of constructing a TSS must give the same bytes (Default is `new`)
            let dbytes: [u8; 104] = unsafe { core::mem::transmute_copy(&TaskStateSegment::default()) };
            if !zero_except_iomap || !lay_ok || dbytes != bytes {
                v.push(-77);
            }
            v
        }
        [20, v, path] => {
            let mut idt = Box::new(InterruptDescriptorTable::new());
            let vec8 = *v as u8;
            let a = VirtAddr::new(MARK_ADDR);
            match catch(AssertUnwindSafe(|| {
                if *path == 0 {
                    mark(&mut idt, |t| unsafe { t[vec8].set_handler_addr(a) })
                } else {
                    let p = &idt[vec8] as *const _ as *const u8;
                    vec![off_in(&idt, p)]
                }
            })) {
                Some(x) => x,
                None => vec![PANIC],
            }
        }
        [21, id] => {
            let mut idt = Box::new(InterruptDescriptorTable::new());
            idt_named(&mut idt, *id)
        }
        [22, form, s, e, via] => {
            let mut idt = Box::new(InterruptDescriptorTable::new());
            match slice_via(&mut idt, *form, *s as u8, *e as u8, *via) {
                Some((o, n)) => vec![o, n],
                None => vec![PANIC],
            }
        }
        [23, cs, prog @ ..] => {
            use x86_64::instructions::segmentation::{Segment, CS};
            if CS::get_reg().0 as u64 != *cs {
                return vec![-77];
            }
            let mut e: Entry<HandlerFunc> = Entry::missing();
            let mut opts: *mut EntryOptions = core::ptr::null_mut();
            let mut v = vec![];
            for ch in prog.chunks(2) {
                if ch.len() < 2 {
                    break;
                }
                let (op, arg) = (ch[0], ch[1]);
                let ep = &mut e as *mut Entry<HandlerFunc>;
                let res = catch(AssertUnwindSafe(|| unsafe {
                    if op == 0 {
                        opts = (*ep).set_handler_addr(VirtAddr::new(arg)) as *mut EntryOptions;
                        true
                    } else if opts.is_null() {
                        false
                    } else {
                        match op {
                            1 => { (*opts).set_present(arg != 0); }
                            2 => { (*opts).disable_interrupts(arg != 0); }
                            3 => { (*opts).set_privilege_level(PrivilegeLevel::from_u16(arg as u16)); }
                            4 => { (*opts).set_stack_index(arg as u16); }
                            _ => { (*opts).set_code_selector(x86_64::structures::gdt::SegmentSelector(arg as u16)); }
                        }
                        true
                    }
                }));
                match res {
                    None => {
                        v.push(PANIC);
                        break;
                    }
                    Some(false) => {}
                    Some(true) => {
                        let (lo, hi) = words(&e);
                        v.extend([lo as i128, hi as i128, e.handler_addr().as_u64() as i128]);
                    }
                }
            }
            v
        }
        [24] => {
            let mut idt = Box::new(InterruptDescriptorTable::new());
            let miss: Entry<HandlerFunc> = Entry::missing();
            let (mlo, mhi) = words(&miss);
            let count = |t: &InterruptDescriptorTable| table_bytes(t).chunks(16).filter(|c| u64::from_le_bytes(c[0..8].try_into().unwrap()) == mlo && u64::from_le_bytes(c[8..16].try_into().unwrap()) == mhi).count();
            let n0 = count(&idt);
            // dirty some gates, reset, count again
            unsafe {
                idt.breakpoint.set_handler_addr(VirtAddr::new(MARK_ADDR));
                idt[255].set_handler_addr(VirtAddr::new(MARK_ADDR));
                // ... and then every one of the 256 gates (named fields, reserved ones and the array alike),
                // through the raw bytes: reset must bring all of them back
                let mut e: Entry<HandlerFunc> = Entry::missing();
                e.set_handler_addr(VirtAddr::new(MARK_ADDR));
                let (plo, phi) = words(&e);
                let p = &mut *idt as *mut InterruptDescriptorTable as *mut u64;
                for i in 0..256usize {
                    p.add(2 * i).write(plo);
                    p.add(2 * i + 1).write(phi);
                }
            }
            idt.reset();
            let n1 = count(&idt);
            let dflt = InterruptDescriptorTable::default();
            let n2 = count(&dflt);
            let _ = marker_handler;
            vec![if n0 == n1 && n1 == n2 { n0 as i128 } else { -77 }, core::mem::size_of::<InterruptDescriptorTable>() as i128, core::mem::align_of::<InterruptDescriptorTable>() as i128, mlo as i128, mhi as i128]
        }
        [25] => {
            softcpu::install_once();
            let c = softcpu::cpu();
            c.reset();
            let idt: &'static InterruptDescriptorTable = Box::leak(Box::new(InterruptDescriptorTable::new()));
            idt.load();
            let log = c.take_log();
            if log.len() != 1 || log[0].op != Op::Lidt {
                return vec![-77];
            }
            vec![log[0].a as i128, log[0].b as i128 - (idt as *const _ as u64) as i128]
        }
        _ => vec![-99],
    }
}

pub fn run(c: &[u64]) -> Vec<i128> {
    catch(|| run_inner(c)).unwrap_or_else(|| vec![PANIC])
}
