//! Case generators and property oracles for the address properties C03..C07.
//! Oracles are written from the property text with u128 arithmetic and bit loops; they do not
//! share code with the model or with the crate.
use crate::util::*;
use std::collections::HashSet;
use std::io::Write;

pub const CONSTS: &[u64] = &[
    0, 1 << 12, 1 << 21, 1 << 30, 1 << 39, 1 << 47, 1 << 48, 1 << 52, 1 << 63,
    0xffff_8000_0000_0000, 0x0000_7fff_ffff_f000, 0x0000_7fff_ffe0_0000, 0x0000_7fff_c000_0000,
    0xffff_ffff_ffff_f000, 0xffff_ffff_ffe0_0000, 0xffff_ffff_c000_0000, 0x000f_ffff_ffff_f000,
    0x000f_ffff_ffe0_0000, 0x000f_ffff_c000_0000, 0xffff_7fff_ffff_ffff, 0x0001_0000_0000_0000,
    0xffff_0000_0000_0000, 0x0000_ffff_ffff_ffff, 0xfff0_0000_0000_0000, u64::MAX,
];

pub fn boundary(rng: &mut Rng) -> u64 {
    let d = rng.below(5) as i64 - 2;
    let base = if rng.chance(1, 3) { 1u64 << rng.below(64) } else { rng.pick(CONSTS) };
    base.wrapping_add(d as u64)
}
pub fn any_u64(rng: &mut Rng) -> u64 {
    match rng.below(10) {
        0..=3 => boundary(rng),
        4..=6 => rng.bits(),
        7 => sign_extend(rng.next()),
        8 => rng.next() & ((1 << 52) - 1),
        _ => rng.next(),
    }
}
/// canonicalise by copying bit 47 into bits 48..63, bit by bit (independent of the crate)
pub fn sign_extend(a: u64) -> u64 {
    let b47 = (a >> 47) & 1;
    let mut x = a;
    for i in 48..64 {
        x = (x & !(1u64 << i)) | (b47 << i);
    }
    x
}
pub fn is_canonical(a: u64) -> bool {
    let b47 = (a >> 47) & 1;
    (48..64).all(|i| (a >> i) & 1 == b47)
}
pub fn is_phys(a: u64) -> bool {
    (52..64).all(|i| (a >> i) & 1 == 0)
}
pub fn canon(rng: &mut Rng) -> u64 {
    sign_extend(any_u64(rng))
}
pub fn phys(rng: &mut Rng) -> u64 {
    let mut x = any_u64(rng);
    for i in 52..64 {
        x &= !(1u64 << i);
    }
    x
}
pub fn size_of_k(k: u64) -> u64 {
    match k {
        0 => 4096,
        1 => 1 << 21,
        _ => 1 << 30,
    }
}
pub fn page_of(rng: &mut Rng, k: u64) -> u64 {
    let a = canon(rng);
    a - a % size_of_k(k)
}
pub fn frame_of(rng: &mut Rng, k: u64) -> u64 {
    let a = phys(rng);
    a - a % size_of_k(k)
}
pub fn align(rng: &mut Rng) -> u64 {
    let p = 1u64 << rng.below(64);
    match rng.below(10) {
        0 => p.wrapping_add(1),
        1 => p.wrapping_sub(1),
        2 => 0,
        3 => rng.bits(),
        _ => p,
    }
}
/// an offset aimed at the overflow edges of a + b, a * SIZE
pub fn offset(rng: &mut Rng, a: u64) -> u64 {
    match rng.below(8) {
        0 => boundary(rng).wrapping_sub(a),
        1 => 0u64.wrapping_sub(a).wrapping_add(rng.below(5)).wrapping_sub(2),
        2 => (1u64 << rng.below(64)).wrapping_add(rng.below(3)).wrapping_sub(1),
        3 => rng.below(8),
        4 => a.wrapping_add(rng.below(5)).wrapping_sub(2),
        _ => any_u64(rng),
    }
}
/// a step count aimed at the gap and the ends
pub fn count(rng: &mut Rng, a: u64, sz: u64) -> u64 {
    let pos = if a < (1 << 47) { a } else { a.wrapping_sub(0xffff_0000_0000_0000) };
    let to_top = ((1u64 << 48) - pos) / sz;
    let to_gap = ((1u64 << 47).wrapping_sub(pos)) / sz;
    match rng.below(10) {
        0 => to_top.wrapping_add(rng.below(5)).wrapping_sub(2),
        1 => to_gap.wrapping_add(rng.below(5)).wrapping_sub(2),
        2 => (pos / sz).wrapping_add(rng.below(5)).wrapping_sub(2),
        3 => ((1u64 << 48) / sz).wrapping_add(rng.below(5)).wrapping_sub(2),
        4 => (u64::MAX / sz).wrapping_add(rng.below(5)).wrapping_sub(2),
        5 => rng.below(4),
        6 => u64::MAX - rng.below(3),
        _ => any_u64(rng),
    }
}

fn emit(out: &mut impl Write, c: &[u64]) {
    writeln!(out, "{}", fmt_case(c)).unwrap();
}

fn gen_range(rng: &mut Rng, out: &mut impl Write, thorough: bool) {
    // kinds 0,1 pages; 2,3 frames. Bounds in one half / below 2^52; ends aimed at the edges.
    let k = rng.below(4);
    let szk = rng.below(3);
    let sz = size_of_k(szk);
    let maxlen = if thorough { 600 } else { 300 };
    let len = match rng.below(6) {
        0 => 0,
        1 => 1,
        2 => 2,
        3 => rng.below(6),
        _ => rng.below(maxlen),
    };
    let (lo, hi): (u64, u64) = if k < 2 {
        if rng.chance(1, 2) { (0, (1u64 << 47) - sz) } else { (0xffff_8000_0000_0000, 0u64.wrapping_sub(sz)) }
    } else {
        (0, (1u64 << 52) - sz)
    };
    // choose where the range sits: at the low edge, at the high edge, or somewhere in between
    let span = len * sz;
    let room = hi - lo;
    let (s, e) = match rng.below(4) {
        0 => (lo, lo + span.min(room)),
        1 | 2 => (hi - span.min(room), hi),
        _ => {
            let off = (rng.next() % (room / sz + 1)) * sz;
            let s = lo + off;
            (s, s + span.min(hi - s))
        }
    };
    // sometimes swap to get an empty (inverted) range
    let (s, e) = if rng.chance(1, 12) { (e, s) } else { (s, e) };
    let n = len + 3;
    emit(out, &[50, k, szk, s, e, n]);
}

pub fn gen(prop: &str, seed: u64, thorough: bool, out: &mut impl Write) {
    let mut rng = Rng::new(seed ^ u64::from_str_radix(&prop[1..], 10).unwrap() * 0x1234567);
    let rng = &mut rng;
    match prop {
        "C03" => {
            // every constant and every power of two +-2 through every constructor
            let mut vals: Vec<u64> = vec![];
            for c in CONSTS.iter().copied().chain((0..64).map(|i| 1u64 << i)) {
                for d in -2i64..=2 {
                    vals.push(c.wrapping_add(d as u64));
                }
            }
            for v in &vals {
                for f in [1, 2, 3, 16, 17, 18, 54] {
                    emit(out, &[f, *v]);
                }
            }
            let n = if thorough { 4_000_000 } else { 120_000 };
            for _ in 0..n {
                let v = any_u64(rng);
                let f = rng.pick(&[1u64, 2, 3, 16, 17, 18, 54]);
                emit(out, &[f, v]);
            }
            for _ in 0..n / 6 {
                let v = any_u64(rng);
                emit(out, &[55, v & 0xffff, (v >> 16) & 0xffff, v >> 32]);
            }
            // iterating page/frame ranges is a safe operation too: every yielded page and the
            // range's own bounds must stay valid, also for ranges that reach or cross the
            // non-canonical gap or end at the last page / frame
            let rn = if thorough { 60_000 } else { 3_000 };
            for _ in 0..rn {
                let k = rng.below(4);
                let szk = rng.below(3);
                let sz = size_of_k(szk);
                let back = rng.below(6) * sz;
                let fwd = rng.below(6) * sz;
                let (s, e) = if k < 2 {
                    match rng.below(4) {
                        0 => (((1u64 << 47) - sz).wrapping_sub(back), 0xffff_8000_0000_0000u64.wrapping_add(fwd)),   // across the gap
                        1 => (((1u64 << 47) - sz).wrapping_sub(back), (1u64 << 47) - sz),                             // up to the gap
                        2 => (0u64.wrapping_sub(sz).wrapping_sub(back), 0u64.wrapping_sub(sz)),                       // up to the top
                        _ => { let a = page_of(rng, szk); (a, sign_extend(a.wrapping_add(fwd) & !(sz - 1))) }
                    }
                } else {
                    match rng.below(2) {
                        0 => (((1u64 << 52) - sz).wrapping_sub(back), (1u64 << 52) - sz),
                        _ => { let a = frame_of(rng, szk); (a, (a + fwd).min((1u64 << 52) - sz)) }
                    }
                };
                emit(out, &[50, k, szk, s, e, 4 + rng.below(12)]);
            }
            // programs of safe operations
            let progs = if thorough { 300_000 } else { 6_000 };
            for _ in 0..progs {
                let len = 1 + rng.below(30);
                let isva = rng.chance(1, 2);
                let mut c = vec![if isva { 52 } else { 53 }, if isva { canon(rng) } else { phys(rng) }];
                for _ in 0..len {
                    let op = if isva { rng.below(21) } else { rng.below(13) };
                    let arg = match (isva, op) {
                        (_, 4) | (_, 5) => {
                            if rng.chance(9, 10) { 1u64 << rng.below(if isva { 48 } else { 53 }) } else { align(rng) }
                        }
                        (true, 0) | (true, 1) => if rng.chance(3, 4) { canon(rng) } else { any_u64(rng) },
                        (false, 0) | (false, 1) => if rng.chance(3, 4) { phys(rng) } else { any_u64(rng) },
                        (_, 6) | (_, 7) => if rng.chance(2, 3) { rng.bits() >> rng.below(40) } else { any_u64(rng) },
                        (true, 8) | (true, 9) => if rng.chance(2, 3) { rng.bits() >> 16 } else { any_u64(rng) },
                        (true, 10..=13) | (false, 8) | (false, 9) => if rng.chance(3, 4) { rng.bits() >> 28 } else { any_u64(rng) },
                        _ => any_u64(rng),
                    };
                    c.push(op);
                    c.push(arg);
                }
                emit(out, &c);
            }
        }
        "C04" => {
            for i in 0..=0xffffu64 {
                for f in [42, 43, 44, 45] {
                    emit(out, &[f, i]);
                }
            }
            for l in 1..=4 {
                emit(out, &[49, l]);
            }
            let edge = [0u64, 1, 255, 256, 511];
            let full = if thorough { 512 } else { 64 };
            for p4 in 0..512u64 {
                for j in 0..full {
                    let p3 = if thorough { j } else if j < 5 { edge[j as usize] } else { rng.below(512) };
                    emit(out, &[33, p4, p3]);
                    let p2 = rng.pick(&edge);
                    let p1 = rng.pick(&edge);
                    emit(out, &[34, p4, p3, p2]);
                    emit(out, &[35, p4, p3, p2, p1]);
                    emit(out, &[35, p4, p3, rng.below(512), rng.below(512)]);
                }
            }
            // index 512 and beyond must be rejected by PageTableIndex::new inside the harness
            emit(out, &[35, 512, 0, 0, 0]);
            for st in [0u64, 1, 255, 256, 510, 511] { for n in [0u64, 1, 2, 255, 256, 510, 511, 512, 513] { if st + n >= 508 { emit(out, &[47, st, n]); } emit(out, &[48, st, n]); } }
            emit(out, &[33, 0, 512]);
            let n = if thorough { 3_000_000 } else { 100_000 };
            for _ in 0..n {
                match rng.below(3) {
                    0 => emit(out, &[9, canon(rng)]),
                    1 => {
                        let k = rng.below(3);
                        emit(out, &[41, k, page_of(rng, k)]);
                    }
                    _ => emit(out, &[35, rng.below(512), rng.below(512), rng.below(512), rng.below(512)]),
                }
            }
        }
        "C05" => {
            // single and double steps across the gap and at both ends, every size, both directions
            for k in 0..3u64 {
                let sz = size_of_k(k);
                for d in 0..3u64 {
                    for n in 0..4u64 {
                        emit(out, &[31, k, ((1u64 << 47) - sz).wrapping_sub(d * sz), n]);
                        emit(out, &[32, k, 0xffff_8000_0000_0000u64.wrapping_add(d * sz), n]);
                        emit(out, &[31, k, 0u64.wrapping_sub(sz).wrapping_sub(d * sz), n]);
                        emit(out, &[32, k, d * sz, n]);
                    }
                }
            }
            for d in 0..3u64 {
                for n in 0..4u64 {
                    emit(out, &[11, (1u64 << 47) - 1 - d, n]);
                    emit(out, &[12, 0xffff_8000_0000_0000u64 + d, n]);
                }
            }
            for s in 0..512u64 {
                for e in [0u64, 1, 2, 255, 256, 510, 511] {
                    emit(out, &[46, s, e]);
                }
                for n in [0u64, 1, 2, 510, 511, 512, 513, u64::MAX, u64::MAX - 1, 1 << 16, (1 << 16) + 1, 65535, 65534, 65024, 65025,
                    65535 - s, 65536 - s, 65537 - s, (1 << 16) + 511 - s, (1 << 32) - 1, 1 << 32, (1u64 << 32) - s, (1u64 << 32) + 512 - s, (1u64 << 63), u64::MAX - s, (u64::MAX - s).wrapping_add(1)] {
                    emit(out, &[47, s, n]);
                    emit(out, &[48, s, n]);
                }
                for _ in 0..4 {
                    emit(out, &[47, s, rng.below(600)]);
                    emit(out, &[48, s, rng.below(600)]);
                    emit(out, &[46, s, rng.below(512)]);
                }
            }
            let n = if thorough { 5_000_000 } else { 150_000 };
            for _ in 0..n {
                match rng.below(6) {
                    0 => {
                        let a = canon(rng);
                        emit(out, &[11, a, count(rng, a, 1)]);
                    }
                    1 => {
                        let a = canon(rng);
                        emit(out, &[12, a, count(rng, a, 1)]);
                    }
                    2 => {
                        let a = canon(rng);
                        let b = if rng.chance(1, 2) { canon(rng) } else { sign_extend(a.wrapping_add(rng.below(9)).wrapping_sub(4)) };
                        emit(out, &[10, a, b]);
                    }
                    3 => {
                        let k = rng.below(3);
                        let p = page_of(rng, k);
                        emit(out, &[31, k, p, count(rng, p, size_of_k(k))]);
                    }
                    4 => {
                        let k = rng.below(3);
                        let p = page_of(rng, k);
                        emit(out, &[32, k, p, count(rng, p, size_of_k(k))]);
                    }
                    _ => {
                        let k = rng.below(3);
                        emit(out, &[30, k, page_of(rng, k), page_of(rng, k)]);
                    }
                }
            }
        }
        "C06" => {
            // all 64 alignments x addresses around each alignment's multiples, the gap, 2^52, the top
            for k in 0..64u64 {
                let al = 1u64 << k;
                let mut addrs: Vec<u64> = vec![0, 1, al.wrapping_sub(1), al, al.wrapping_add(1), u64::MAX, u64::MAX - 1];
                for c in CONSTS {
                    for d in [-1i64, 0, 1] {
                        addrs.push(c.wrapping_add(d as u64));
                    }
                }
                for _ in 0..6 {
                    let m = any_u64(rng) & !(al - 1);
                    addrs.push(m);
                    addrs.push(m.wrapping_add(1));
                    addrs.push(m.wrapping_sub(1));
                }
                for a in addrs {
                    emit(out, &[4, a, al]);
                    emit(out, &[5, a, al]);
                    if is_canonical(a) {
                        emit(out, &[6, a, al]);
                        emit(out, &[7, a, al]);
                        emit(out, &[8, a, al]);
                    }
                    if is_phys(a) {
                        emit(out, &[19, a, al]);
                        emit(out, &[20, a, al]);
                        emit(out, &[21, a, al]);
                    }
                }
            }
            let n = if thorough { 3_000_000 } else { 100_000 };
            for _ in 0..n {
                let al = align(rng);
                match rng.below(12) {
                    0 => emit(out, &[4, any_u64(rng), al]),
                    1 => emit(out, &[5, any_u64(rng), al]),
                    2 => emit(out, &[6, canon(rng), al]),
                    3 => emit(out, &[7, canon(rng), al]),
                    4 => emit(out, &[8, canon(rng), al]),
                    5 => emit(out, &[19, phys(rng), al]),
                    6 => emit(out, &[20, phys(rng), al]),
                    7 => emit(out, &[21, phys(rng), al]),
                    8 => emit(out, &[25, rng.below(3), canon(rng)]),
                    9 => emit(out, &[26, rng.below(3), canon(rng)]),
                    10 => emit(out, &[36, rng.below(3), phys(rng)]),
                    _ => emit(out, &[37, rng.below(3), phys(rng)]),
                }
            }
        }
        "C07" => {
            let n = if thorough { 4_000_000 } else { 120_000 };
            for _ in 0..n {
                match rng.below(12) {
                    0 => { let a = canon(rng); emit(out, &[13, a, offset(rng, a)]); }
                    1 => { let a = canon(rng); emit(out, &[14, a, offset(rng, a)]); }
                    2 => { let a = canon(rng); let b = if rng.chance(1,2) { canon(rng) } else { sign_extend(offset(rng, a)) }; emit(out, &[15, a, b]); }
                    3 => { let a = phys(rng); emit(out, &[22, a, offset(rng, a)]); }
                    4 => { let a = phys(rng); emit(out, &[23, a, offset(rng, a)]); }
                    5 => { let a = phys(rng); emit(out, &[24, a, phys(rng)]); }
                    6 | 7 => {
                        let k = rng.below(3);
                        let p = page_of(rng, k);
                        let sz = size_of_k(k);
                        let n = match rng.below(5) { 0 => offset(rng, p) / sz, 1 => (u64::MAX / sz).wrapping_add(rng.below(5)).wrapping_sub(2), 2 => (1u64 << rng.below(64)) / sz * (1 + rng.below(2)), _ => count(rng, p, sz) };
                        emit(out, &[if rng.chance(1,2) { 27 } else { 28 }, k, p, n]);
                    }
                    8 => { let k = rng.below(3); emit(out, &[29, k, page_of(rng, k), page_of(rng, k)]); }
                    9 | 10 => {
                        let k = rng.below(3);
                        let p = frame_of(rng, k);
                        let sz = size_of_k(k);
                        let n = match rng.below(5) { 0 => offset(rng, p) / sz, 1 => (u64::MAX / sz).wrapping_add(rng.below(5)).wrapping_sub(2), 2 => (1u64 << rng.below(64)) / sz * (1 + rng.below(2)), 3 => ((1u64 << 52) - p) / sz + rng.below(3) - 1, _ => any_u64(rng) };
                        emit(out, &[if rng.chance(1,2) { 38 } else { 39 }, k, p, n]);
                    }
                    _ => { let k = rng.below(3); emit(out, &[40, k, frame_of(rng, k), frame_of(rng, k)]); }
                }
            }
            let ranges = if thorough { 40_000 } else { 4_000 };
            for _ in 0..ranges {
                gen_range(rng, out, thorough);
            }
            for _ in 0..ranges / 4 {
                // 2 MiB exclusive ranges converted to 4 KiB
                let half_hi = rng.chance(1, 2);
                let lo = if half_hi { 0xffff_8000_0000_0000u64 } else { 0 };
                let top = if half_hi { 0xffff_ffff_ffe0_0000u64 } else { 0x7fff_ffe0_0000 };
                let len = rng.below(50);
                let (s, e) = if rng.chance(1, 2) { (top - (len << 21), top) } else { let s = lo + ((rng.next() % (1 << 20)) << 21); (s, (s + (len << 21)).min(top)) };
                emit(out, &[51, s, e]);
            }
        }
        _ => unreachable!(),
    }
}

// ---------------------------------------------------------------------------------------
// oracles

fn pos(a: u64) -> u128 {
    if a < (1 << 47) { a as u128 } else { (a as u128) - ((1u128 << 64) - (1u128 << 48)) }
}
fn unpos(p: u128) -> u64 {
    if p < (1 << 47) { p as u64 } else { (p + ((1u128 << 64) - (1u128 << 48))) as u64 }
}
fn bitfield(a: u64, lo: u32, n: u32) -> u64 {
    let mut v = 0;
    for i in 0..n {
        v |= ((a >> (lo + i)) & 1) << i;
    }
    v
}
fn is_pow2(al: u64) -> bool {
    (0..64).any(|i| al == 1u64 << i)
}
fn same_half(a: u64, b: u64) -> bool {
    (a >> 47) & 1 == (b >> 47) & 1
}

/// Returns (failing clause or None, non-trivial?)
fn judge(prop: &str, c: &[u64], a: &[i128]) -> (Option<&'static str>, bool) {
    let ok1 = a.len() == 1 && a[0] >= 0;
    let v = if a.is_empty() { 0 } else { a[0] };
    let pan = a.len() == 1 && a[0] == -1;
    let none = a.len() == 1 && a[0] == -2;
    let near = |x: u64| CONSTS.iter().any(|k| x.wrapping_sub(*k).wrapping_add(2) <= 4) || (0..64).any(|i| x.wrapping_sub(1u64 << i).wrapping_add(2) <= 4);
    match prop {
        "C03" => match c[0] {
            1 | 2 => {
                let valid = is_canonical(c[1]);
                let nt = near(c[1]) || c[1] >> 47 != 0;
                if valid && !(ok1 && v as u64 == c[1]) { return (Some("checked VirtAddr constructor must return a valid input unchanged"), nt); }
                if !valid && ok1 { return (Some("checked VirtAddr constructor accepted a non-canonical value"), nt); }
                (None, nt)
            }
            3 | 55 => {
                let x = v as u64;
                let nt = true;
                if !is_canonical(x) { return (Some("truncating constructor returned a non-canonical address"), nt); }
                if c[0] == 3 {
                    if bitfield(x, 0, 48) != bitfield(c[1], 0, 48) { return (Some("new_truncate must depend only on (and keep) the low 48 bits"), nt); }
                    if is_canonical(c[1]) && x != c[1] { return (Some("new_truncate must agree with new on valid input"), nt); }
                }
                (None, near(c[1]) || c[1] >> 47 != 0)
            }
            16 | 17 => {
                let valid = is_phys(c[1]);
                let nt = near(c[1]) || c[1] >> 51 != 0;
                if valid && !(ok1 && v as u64 == c[1]) { return (Some("checked PhysAddr constructor must return a valid input unchanged"), nt); }
                if !valid && ok1 { return (Some("checked PhysAddr constructor accepted a value with bits 52-63 set"), nt); }
                (None, nt)
            }
            18 => {
                let x = v as u64;
                if !is_phys(x) { return (Some("PhysAddr::new_truncate returned bits 52-63 set"), true); }
                if bitfield(x, 0, 52) != bitfield(c[1], 0, 52) { return (Some("PhysAddr::new_truncate must keep the low 52 bits"), true); }
                (None, near(c[1]) || c[1] >> 51 != 0)
            }
            54 => {
                if ok1 && !is_phys(v as u64) { return (Some("PageTableEntry::addr returned bits 52-63 set"), true); }
                (None, near(c[1]))
            }
            50 => {
                // [is_empty, len.., size.., m, items.., panicked, start, end]: whatever was yielded and
                // whatever the range holds afterwards must be a valid address (panics are not C03's concern)
                let virt = c[1] < 2;
                let bad = |x: i128| x >= 0 && if virt { !is_canonical(x as u64) } else { !is_phys(x as u64) };
                let tail = if a.len() >= 3 { &a[a.len() - 2..] } else { &a[..0] };
                if let Some(mpos) = (0..a.len()).find(|i| *i >= 3 && a[*i] >= 0 && (a[*i] as usize) + *i + 4 == a.len()) {
                    let m = a[mpos] as usize;
                    for x in &a[mpos + 1..mpos + 1 + m] {
                        if bad(*x) { return (Some(if virt { "iterating a page range yielded a page with a non-canonical start address" } else { "iterating a frame range yielded a frame with address bits 52-63 set" }), true); }
                    }
                }
                for x in tail {
                    if bad(*x) { return (Some(if virt { "iterating a page range left a non-canonical address in the range" } else { "iterating a frame range left an address with bits 52-63 set in the range" }), true); }
                }
                (None, true)
            }
            52 | 53 => {
                let mut nt = false;
                for x in a {
                    if *x == -1 { nt = true; continue; }
                    let x = *x as u64;
                    if c[0] == 52 && !is_canonical(x) { return (Some("a program of safe operations produced a non-canonical VirtAddr"), true); }
                    if c[0] == 53 && !is_phys(x) { return (Some("a program of safe operations produced a PhysAddr with bits 52-63 set"), true); }
                    if c[0] == 52 && x >> 47 != 0 { nt = true; }
                    if c[0] == 53 && x >> 40 != 0 { nt = true; }
                }
                (None, nt)
            }
            _ => (None, false),
        },
        "C04" => match c[0] {
            47 | 48 => {
                // stepping is another producer of table indices: whatever it returns is an index below 512
                if ok1 && v >= 512 { return (Some("a step on a page-table index produced an index outside 0..512"), true); }
                (None, c[1] + c[2] >= 510)
            }
            9 => {
                let x = c[1];
                let exp = [bitfield(x, 0, 12), bitfield(x, 12, 9), bitfield(x, 21, 9), bitfield(x, 30, 9), bitfield(x, 39, 9),
                           bitfield(x, 12, 9), bitfield(x, 21, 9), bitfield(x, 30, 9), bitfield(x, 39, 9)];
                let nt = exp[4] >= 256 || exp[1..5].iter().any(|i| *i == 0 || *i == 511);
                if a.len() != 9 || (0..9).any(|i| a[i] != exp[i] as i128) { return (Some("index/offset accessors must be bit fields 0-11, 12-20, 21-29, 30-38, 39-47"), nt); }
                (None, nt)
            }
            41 => {
                let (k, x) = (c[1], c[2]);
                let mut exp = vec![bitfield(x, 39, 9), bitfield(x, 30, 9)];
                if k != 2 { exp.push(bitfield(x, 21, 9)); }
                if k == 0 { exp.push(bitfield(x, 12, 9)); }
                exp.extend([bitfield(x, 12, 9), bitfield(x, 21, 9), bitfield(x, 30, 9), bitfield(x, 39, 9)]);
                let nt = exp[0] >= 256 || exp.iter().any(|i| *i == 511);
                if a.len() != exp.len() || (0..exp.len()).any(|i| a[i] != exp[i] as i128) { return (Some("Page index accessors must be the bit fields of the start address"), nt); }
                (None, nt)
            }
            33 | 34 | 35 => {
                let idxs = &c[1..];
                let nt = idxs[0] >= 256 || idxs.iter().any(|i| *i == 0 || *i == 511);
                if idxs.iter().any(|i| *i >= 512) { return (if pan { None } else { Some("index >= 512 must be rejected") }, true); }
                if !ok1 { return (Some("from_page_table_indices must not panic on valid indices"), nt); }
                let x = v as u64;
                let shifts = [39u32, 30, 21, 12];
                if !is_canonical(x) { return (Some("page built from indices is not canonical"), nt); }
                for (j, i) in idxs.iter().enumerate() {
                    if bitfield(x, shifts[j], 9) != *i { return (Some("page built from indices does not have those indices"), nt); }
                }
                let low = shifts[idxs.len() - 1];
                if bitfield(x, 0, low) != 0 { return (Some("page built from indices is not aligned to its size"), nt); }
                (None, nt)
            }
            42 | 44 => {
                let lim = if c[0] == 42 { 512 } else { 4096 };
                let nt = c[1].wrapping_sub(lim).wrapping_add(2) <= 4 || c[1] == 0 || c[1] == 0xffff;
                if c[1] < lim && !(ok1 && v as u64 == c[1]) { return (Some("index/offset constructor must accept exactly values below 512/4096"), nt); }
                if c[1] >= lim && !pan { return (Some("index/offset constructor accepted an out-of-range value"), nt); }
                (None, nt)
            }
            43 | 45 => {
                let lim = if c[0] == 43 { 512 } else { 4096 };
                if v as u64 != c[1] % lim { return (Some("truncating index/offset constructor must reduce modulo 512/4096"), true); }
                (None, c[1] >= lim)
            }
            49 => {
                let l = c[1];
                let exp: [i128; 4] = [if l > 1 { l as i128 - 1 } else { -2 }, if l < 4 { l as i128 + 1 } else { -2 }, 1i128 << (9 * l + 12), 1i128 << (9 * (l - 1) + 12)];
                if a != exp { return (Some("level helpers must describe the 9-9-9-9-12 layout"), true); }
                (None, true)
            }
            _ => (None, false),
        },
        "C05" => {
            let (s, n, sz, fwd, isidx) = match c[0] {
                11 => (c[1], c[2], 1u64, true, false),
                12 => (c[1], c[2], 1, false, false),
                31 => (c[2], c[3], size_of_k(c[1]), true, false),
                32 => (c[2], c[3], size_of_k(c[1]), false, false),
                47 => (c[1], c[2], 1, true, true),
                48 => (c[1], c[2], 1, false, true),
                10 | 30 | 46 => {
                    let (s, e, sz) = if c[0] == 30 { (c[2], c[3], size_of_k(c[1])) } else { (c[1], c[2], 1) };
                    let (ps, pe) = if c[0] == 46 { (s as u128, e as u128) } else { (pos(s), pos(e)) };
                    let nt = c[0] != 46 && (!same_half(s, e) || ps == pe);
                    let exp: Vec<i128> = if ps <= pe { let d = ((pe - ps) / sz as u128) as i128; vec![d, d] } else { vec![0, -2] };
                    if a != exp.as_slice() { return (Some("steps_between must be the exact distance in the contiguous sequence, or none when end is before start"), nt); }
                    return (None, nt || c[0] == 46 && (s == 511 || e == 511 || s == e));
                }
                _ => return (None, false),
            };
            if pan { return (Some("step operation panicked"), true); }
            let limit: u128 = if isidx { 512 } else { 1 << 48 };
            let p = if isidx { s as u128 } else { pos(s) };
            let delta = n as u128 * sz as u128;
            let target: Option<u128> = if fwd { if p + delta < limit { Some(p + delta) } else { None } } else if delta <= p { Some(p - delta) } else { None };
            let crosses = !isidx && target.map_or(true, |t| (t >> 47) != (p >> 47));
            let nt = crosses || n >= 1 << 47 || isidx && (target.is_none() || target == Some(511) || target == Some(0));
            match target {
                None => if !none { return (Some("step must fail exactly when the target position does not exist"), nt); },
                Some(t) => {
                    let exp = if isidx { t as u64 } else { unpos(t) };
                    if !(ok1 && v as u64 == exp) { return (Some("step must land exactly n positions later/earlier in the contiguous canonical sequence"), nt); }
                }
            }
            (None, nt)
        }
        "C06" => match c[0] {
            4 | 5 | 6 | 7 | 19 | 20 => {
                let (x, al) = (c[1], c[2]);
                let up = matches!(c[0], 5 | 6 | 19);
                let nt = pan || (ok1 && v as u64 != x);
                if !is_pow2(al) { return (if pan { None } else { Some("alignment that is not a power of two must panic") }, true); }
                if matches!(c[0], 6 | 7) && al > (1 << 47) { return (None, false); } // outside the stated range
                let exact: u128 = if up { ((x as u128 + al as u128 - 1) / al as u128) * al as u128 } else { (x as u128 / al as u128) * al as u128 };
                match c[0] {
                    4 | 5 => {
                        if exact >= 1 << 64 { return (if pan { None } else { Some("align_up must panic when the rounded value overflows 2^64") }, true); }
                        if !(ok1 && v as u128 == exact) { return (Some("align must return the greatest/least multiple not above/below the input"), nt); }
                    }
                    19 | 20 => {
                        if exact >= 1 << 52 { return (if pan { None } else { Some("PhysAddr::align_up must panic when the result reaches 2^52") }, true); }
                        if !(ok1 && v as u128 == exact) { return (Some("PhysAddr align must return the greatest/least multiple"), nt); }
                    }
                    _ => {
                        // virtual: greatest/least *canonical* multiple
                        if exact >= 1 << 64 { return (if pan { None } else { Some("VirtAddr::align_up must panic when the rounded value overflows 2^64") }, true); }
                        let mut e = exact as u64;
                        if !is_canonical(e) {
                            // only possible when rounding up out of the lower half: the least canonical multiple above is the start of the upper half
                            e = 0xffff_8000_0000_0000;
                        }
                        if !(ok1 && v as u64 == e) { return (Some("VirtAddr align must return the greatest/least canonical multiple"), nt); }
                    }
                }
                (None, nt)
            }
            8 | 21 => {
                let (x, al) = (c[1], c[2]);
                if !is_pow2(al) { return (if pan { None } else { Some("alignment that is not a power of two must panic") }, true); }
                if c[0] == 8 && al > (1 << 47) { return (None, false); }
                let exp = (x % al == 0) as i128;
                if !(ok1 && v == exp) { return (Some("is_aligned must be true exactly for multiples"), true); }
                (None, exp == 1 || x % al == 1)
            }
            25 | 36 => {
                let sz = size_of_k(c[1]);
                let x = c[2];
                if !ok1 { return (Some("containing_address must not panic"), true); }
                let p = v as u64;
                if p % sz != 0 || p > x || x - p >= sz { return (Some("containing page/frame must start at a size-aligned address not above the input and less than one size below it"), true); }
                (None, p != x)
            }
            26 | 37 => {
                let sz = size_of_k(c[1]);
                let x = c[2];
                if x % sz == 0 { if !(ok1 && v as u64 == x) { return (Some("from_start_address must accept an aligned address and return it"), true); } }
                else if !none { return (Some("from_start_address must reject a misaligned address"), true); }
                (None, x % sz == 0 || x % sz == 1)
            }
            _ => (None, false),
        },
        "C07" => match c[0] {
            13 | 14 | 22 | 23 | 27 | 28 | 38 | 39 => {
                let (x, n, sz) = if matches!(c[0], 13 | 14 | 22 | 23) { (c[1], c[2], 1u64) } else { (c[2], c[3], size_of_k(c[1])) };
                let add = matches!(c[0], 13 | 22 | 27 | 38);
                let virt = matches!(c[0], 13 | 14 | 27 | 28);
                let delta = n as u128 * sz as u128;
                let exact: Option<u128> = if add { Some(x as u128 + delta) } else if delta <= x as u128 { Some(x as u128 - delta) } else { None };
                let valid = exact.map_or(false, |e| e < (1 << 64) && if virt { is_canonical(e as u64) } else { e < (1 << 52) });
                let nt = !valid || exact.map_or(false, |e| near(e as u64));
                if ok1 { if !(valid && v as u128 == exact.unwrap()) { return (Some("operator returned a value different from the exact mathematical result (wrapped or truncated)"), true); } }
                else if !pan { return (Some("operator must return a value or panic"), true); }
                (None, nt)
            }
            15 | 24 | 29 | 40 => {
                let (x, y, sz) = if matches!(c[0], 15 | 24) { (c[1], c[2], 1u64) } else { (c[2], c[3], size_of_k(c[1])) };
                if x >= y { if !(ok1 && v as u64 == (x - y) / sz) { return (Some("difference must be exact"), true); } }
                else if ok1 { return (Some("difference of a smaller minus a larger value must not return a value"), true); }
                (None, x < y || (x - y) / sz < 3)
            }
            50 => {
                let (k, szk, s, e, _n) = (c[1], c[2], c[3], c[4], c[5]);
                let sz = size_of_k(szk);
                let incl = k == 1 || k == 3;
                let inscope = if k < 2 { same_half(s, e) } else { true };
                if !inscope { return (None, false); }
                let cnt: u64 = if incl { if s <= e { (e - s) / sz + 1 } else { 0 } } else if s < e { (e - s) / sz } else { 0 };
                let touches = if k < 2 { e >= 0u64.wrapping_sub(2 * sz) || (e < (1 << 47) && e >= (1 << 47) - 2 * sz) } else { e >= (1 << 52) - 2 * sz };
                let nt = touches || cnt == 0;
                if a.len() < 7 || a.iter().any(|x| *x == -1) { return (Some("range operation panicked for bounds in one half"), nt); }
                if a[0] != (cnt == 0) as i128 { return (Some("is_empty wrong"), nt); }
                if a[1] != cnt as i128 { return (Some("len must equal the number of items"), nt); }
                if a[2] != cnt as i128 * sz as i128 { return (Some("size must be len x page size"), nt); }
                let m = a[3] as usize;
                if m as u64 != cnt { return (Some("range must yield exactly len items and then stop"), nt); }
                for i in 0..m { if a[4 + i] != s as i128 + i as i128 * sz as i128 { return (Some("range must yield start, start+1, ... in ascending order"), nt); } }
                if a[4 + m] != 0 { return (Some("range iteration panicked"), nt); }
                (None, nt)
            }
            51 => {
                let (s, e) = (c[1], c[2]);
                if !same_half(s, e) { return (None, false); }
                let len2 = if s < e { (e - s) >> 21 } else { 0 };
                if a.len() != 6 || a.iter().any(|x| *x < 0) { return (Some("as_4kib_page_range panicked"), true); }
                if a[0] != s as i128 || a[1] != e as i128 { return (Some("as_4kib_page_range must keep start and end"), true); }
                if a[2] != len2 as i128 * 512 || a[3] != a[5] || a[4] != len2 as i128 { return (Some("as_4kib_page_range must cover the same bytes"), true); }
                (None, len2 > 0)
            }
            _ => (None, false),
        },
        _ => (None, false),
    }
}

fn parse_ans(s: &str) -> Vec<i128> {
    s.split_ascii_whitespace()
        .map(|t| if let Some(r) = t.strip_prefix('-') { -(i128::from_str_radix(r, 16).unwrap()) } else { i128::from_str_radix(t, 16).unwrap() })
        .collect()
}

/// args: <prop> <cases file> <answers file>; prints FAIL lines and a SUMMARY line
pub fn oracle(prop: &str) {
    use std::io::BufRead;
    let args: Vec<String> = std::env::args().collect();
    let cases = std::io::BufReader::new(std::fs::File::open(&args[3]).unwrap());
    let answers = std::io::BufReader::new(std::fs::File::open(&args[4]).unwrap());
    let mut evals = 0u64;
    let mut fails = 0u64;
    let mut distinct: HashSet<u64> = HashSet::new();
    let mut hist: std::collections::BTreeMap<u64, u64> = Default::default();
    let mut panics = 0u64;
    for (ln, (cl, al)) in cases.lines().zip(answers.lines()).enumerate() {
        let (cl, al) = (cl.unwrap(), al.unwrap());
        let c = parse_line(&cl);
        let a = parse_ans(&al);
        evals += 1;
        *hist.entry(c[0]).or_default() += 1;
        if a.contains(&-1) { panics += 1; }
        let (f, nt) = judge(prop, &c, &a);
        if nt {
            use std::hash::{Hash, Hasher};
            let mut h = std::collections::hash_map::DefaultHasher::new();
            c.hash(&mut h);
            distinct.insert(h.finish());
        }
        if let Some(clause) = f {
            fails += 1;
            if fails <= 50 { println!("FAIL {} | {} | {} | {}", ln + 1, cl, al, clause); }
        }
    }
    let h: Vec<String> = hist.iter().map(|(k, v)| format!("\"fn{}\":{}", k, v)).collect();
    println!("SUMMARY {{\"evaluations\":{},\"oracle_failures\":{},\"distinct_nontrivial\":{},\"answers_with_panic\":{},\"by_function\":{{{}}}}}", evals, fails, distinct.len(), panics, h.join(","));
}
