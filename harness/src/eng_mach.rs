//! Machine engine: one wrapper call of the real crate under the software CPU.
//! Mirrors coq/theories/Machine/Run.v (`run_mach`).
use crate::softcpu::{self, Op, Trap};
use crate::util::*;
use core::arch::asm;
use x86_64::instructions::interrupts;
use x86_64::instructions::port::{PortGeneric, ReadOnlyAccess, ReadWriteAccess, WriteOnlyAccess};
use x86_64::instructions::segmentation::{Segment, Segment64, CS, DS, ES, FS, GS, SS};
use x86_64::instructions::tlb::{self, InvPcidCommand, Invlpgb, Pcid};
use x86_64::registers::control::{Cr0, Cr0Flags, Cr2, Cr3, Cr3Flags, Cr4, Cr4Flags};
use x86_64::registers::debug::{
    BreakpointCondition, BreakpointSize, DebugAddressRegister, DebugAddressRegisterNumber, Dr0, Dr1, Dr2, Dr3, Dr6,
    Dr7, Dr7Flags, Dr7Value,
};
use x86_64::registers::model_specific::{
    ApicBase, ApicBaseFlags, CetFlags, Efer, EferFlags, FsBase, GsBase, KernelGsBase, LStar, Msr, Pat, PatMemoryType,
    SCet, SFMask, Star, UCet,
};
use x86_64::registers::mxcsr::{self, MxCsr};
use x86_64::registers::rflags::RFlags;
use x86_64::registers::xcontrol::{XCr0, XCr0Flags};
use x86_64::structures::gdt::SegmentSelector;
use x86_64::structures::paging::{Page, PageSize, PhysFrame, Size2MiB, Size4KiB};
use x86_64::structures::DescriptorTablePointer;
use x86_64::{PhysAddr, VirtAddr};

const SEP: i128 = -3;

fn frame(a: u64) -> PhysFrame {
    PhysFrame::from_start_address(PhysAddr::new(a)).unwrap()
}
fn page(a: u64) -> Page {
    Page::from_start_address(VirtAddr::new(a)).unwrap()
}
fn pgs<S: PageSize>(a: u64) -> Page<S> {
    Page::from_start_address(VirtAddr::new(a)).unwrap()
}

fn native_sreg(n: u64) -> u16 {
    let v: u16;
    unsafe {
        match n {
            0 => asm!("mov {0:x}, es", out(reg) v, options(nomem, nostack, preserves_flags)),
            1 => asm!("mov {0:x}, cs", out(reg) v, options(nomem, nostack, preserves_flags)),
            2 => asm!("mov {0:x}, ss", out(reg) v, options(nomem, nostack, preserves_flags)),
            3 => asm!("mov {0:x}, ds", out(reg) v, options(nomem, nostack, preserves_flags)),
            4 => asm!("mov {0:x}, fs", out(reg) v, options(nomem, nostack, preserves_flags)),
            _ => asm!("mov {0:x}, gs", out(reg) v, options(nomem, nostack, preserves_flags)),
        }
    }
    v
}
/// load a null selector (0..3) natively; only ds, es, gs are ever touched
fn native_set_sreg(n: u64, v: u16) {
    unsafe {
        match n {
            0 => asm!("mov es, {0:x}", in(reg) v, options(nostack, preserves_flags)),
            3 => asm!("mov ds, {0:x}", in(reg) v, options(nostack, preserves_flags)),
            5 => asm!("mov gs, {0:x}", in(reg) v, options(nostack, preserves_flags)),
            _ => {}
        }
    }
}
fn native_mxcsr() -> u32 {
    let mut v: u32 = 0;
    unsafe { asm!("stmxcsr [{}]", in(reg) &mut v, options(nostack, preserves_flags)) };
    v
}
fn native_set_mxcsr(v: u32) {
    unsafe { asm!("ldmxcsr [{}]", in(reg) &v, options(nostack, readonly)) };
}
fn native_gsbase() -> u64 {
    let v: u64;
    unsafe { asm!("rdgsbase {}", out(reg) v, options(nomem, nostack, preserves_flags)) };
    v
}
fn native_fsbase() -> u64 {
    let v: u64;
    unsafe { asm!("rdfsbase {}", out(reg) v, options(nomem, nostack, preserves_flags)) };
    v
}
fn native_set_fsbase(v: u64) {
    unsafe { asm!("wrfsbase {}", in(reg) v, options(nostack, preserves_flags)) };
}
/// GS base accessors under a guard: FS.base (the thread pointer) is saved before and restored right
/// after the call, before anything can touch thread-local storage; a call that changed FS.base is
/// reported as a write to the wrong register instead of crashing the harness
#[inline(never)]
fn guarded_gs_write(v: u64) -> bool {
    let fs0 = native_fsbase();
    unsafe { GS::write_base(VirtAddr::new(v)) };
    let fs1 = native_fsbase();
    native_set_fsbase(fs0);
    fs1 == fs0
}
fn native_set_gsbase(v: u64) {
    unsafe { asm!("wrgsbase {}", in(reg) v, options(nostack, preserves_flags)) };
}

/// "no emulated write happened": outside the 16-bit selector range, so it cannot collide with a selector
const SREG_UNSET: u32 = 0x1_0000;

fn load_prior(cls: u64, idx: u64, v: u64) {
    let c = softcpu::cpu();
    match cls {
        0 => c.cr[(idx & 15) as usize] = v,
        1 => c.dr[(idx & 7) as usize] = v,
        2 => c.set_xcr0(v),
        3 => c.set_msr(idx as u32, v),
        4 => softcpu::set_if(v != 0),
        5 => {
            c.port_seed = v;
            c.port_seq = 0;
        }
        6 => native_set_mxcsr(v as u32),
        7 => native_set_sreg(idx, v as u16),
        8 => native_set_gsbase(v),
        _ => {}
    }
}
fn read_prior(cls: u64, idx: u64) -> u64 {
    let c = softcpu::cpu();
    match cls {
        0 => c.cr[(idx & 15) as usize],
        1 => c.dr[(idx & 7) as usize],
        2 => c.xcr0,
        3 => c.msr(idx as u32),
        4 => softcpu::get_if() as u64,
        5 => c.port_seed,
        6 => native_mxcsr() as u64,
        7 => {
            if c.sreg[(idx % 6) as usize] != SREG_UNSET {
                c.sreg[(idx % 6) as usize] as u64
            } else {
                native_sreg(idx) as u64
            }
        }
        8 => native_gsbase(),
        _ => 0,
    }
}

fn canon_events(log: &[Trap]) -> Vec<i128> {
    let mut v = vec![];
    let mut prev_end = 0u64;
    for t in log {
        let (a, b, c): (u64, u64, u64) = match t.op {
            Op::Cli | Op::Sti | Op::Tlbsync | Op::Swapgs => (0, 0, 0),
            Op::Hlt => (0, 0, (t.rip == prev_end) as u64),
            Op::In | Op::Out => (t.a, t.b & 0xffff, t.c),
            Op::MovFromCr | Op::MovToCr | Op::MovFromDr | Op::MovToDr => (t.a, t.b, 0),
            Op::Rdmsr | Op::Wrmsr | Op::Xsetbv => (t.a & 0xffff_ffff, t.b, 0),
            Op::Lgdt | Op::Lidt => (t.a, t.b, 0),
            Op::Ltr => (t.a, 0, 0),
            Op::Invlpg => (t.a, 0, 0),
            Op::Invpcid | Op::Invlpgb => (t.a, t.b, t.c),
            Op::MovToSreg => (t.a, t.b, 0),
            Op::Retfq => (t.a & 0xffff, 0, 0),
        };
        v.extend([t.op as u8 as i128, a as i128, b as i128, c as i128]);
        prev_end = t.rip + t.len;
    }
    v
}

enum R {
    U,
    Z(u64),
    P(u64, u64),
    O(Option<u64>),
    L(Vec<u64>),
    LI(Vec<i128>),
}
fn enc(r: R) -> Vec<i128> {
    match r {
        R::U => vec![],
        R::Z(z) => vec![z as i128],
        R::P(a, b) => vec![a as i128, b as i128],
        R::O(o) => crate::util::o(o),
        R::L(l) => l.into_iter().map(|x| x as i128).collect(),
        R::LI(l) => l,
    }
}

fn dr_num(n: u64) -> DebugAddressRegisterNumber {
    DebugAddressRegisterNumber::new(n as u8).unwrap()
}

fn run_tree(it: &mut core::slice::Iter<u64>, obs: &mut Vec<u64>, depth: usize) {
    if depth > 4000 {
        return;
    }
    match it.next() {
        Some(0) => obs.push(interrupts::are_enabled() as u64),
        Some(1) => {
            let k = *it.next().unwrap_or(&0);
            let r: u64 = interrupts::without_interrupts(|| {
                for _ in 0..k {
                    run_tree(it, obs, depth + 1);
                }
                0x5a5a
            });
            assert_eq!(r, 0x5a5a);
        }
        Some(2) => {
            let k = *it.next().unwrap_or(&0);
            let was = interrupts::are_enabled();
            interrupts::enable();
            for _ in 0..k {
                run_tree(it, obs, depth + 1);
            }
            if !was {
                interrupts::disable();
            }
        }
        _ => {}
    }
}

fn port_rw<A>(w: u64, port: u16, write: Option<u64>) -> R
where
    A: 'static,
    PortGeneric<u8, A>: Sized,
{
    // dispatch over access kinds is done by the caller; this helper exists for the read-write kind
    let _ = (w, port, write);
    R::U
}

/// sets / clears the ID flag (bit 21) of the real RFLAGS: user mode may toggle it, nothing depends on it
fn set_id_flag(on: bool) {
    unsafe {
        if on {
            core::arch::asm!("pushfq", "or qword ptr [rsp], 0x200000", "popfq");
        } else {
            core::arch::asm!("pushfq", "and qword ptr [rsp], -0x200001", "popfq");
        }
    }
}

fn call(fid: u64, a: &[u64], oc_unused: bool) -> R {
    let _ = oc_unused;
    unsafe {
        match (fid, a) {
            (100, []) => R::Z(Cr0::read().bits()),
            (101, []) => R::Z(Cr0::read_raw()),
            (102, [f]) => { Cr0::write(Cr0Flags::from_bits(*f).unwrap()); R::U }
            (103, [v]) => { Cr0::write_raw(*v); R::U }
            (104, [t]) => { Cr0::update(|f| f.toggle(Cr0Flags::from_bits_truncate(*t))); R::U }
            (110, []) => R::O(Cr2::read().ok().map(|v| v.as_u64())),
            (111, []) => R::Z(Cr2::read_raw()),
            (120, []) => { let (f, fl) = Cr3::read(); R::P(f.start_address().as_u64(), fl.bits()) }
            (121, []) => { let (f, v) = Cr3::read_raw(); R::P(f.start_address().as_u64(), v as u64) }
            (122, []) => { let (f, p) = Cr3::read_pcid(); R::P(f.start_address().as_u64(), p.value() as u64) }
            (123, [fr, fl]) => { Cr3::write(frame(*fr), Cr3Flags::from_bits(*fl).unwrap()); R::U }
            (124, [fr, p]) => { Cr3::write_pcid(frame(*fr), Pcid::new(u16::try_from(*p).unwrap()).unwrap()); R::U }
            (125, [fr, p]) => { Cr3::write_pcid_no_flush(frame(*fr), Pcid::new(u16::try_from(*p).unwrap()).unwrap()); R::U }
            (126, [fr, v]) => { Cr3::write_raw(frame(*fr), *v as u16); R::U }
            (127, [nf, t]) => { let nf = frame(*nf); Cr3::update(|f, fl| { *f = nf; fl.toggle(Cr3Flags::from_bits_truncate(*t)); }); R::U }
            (128, [nf, p]) => { let nf = frame(*nf); let np = Pcid::new(u16::try_from(*p).unwrap()).unwrap(); Cr3::update_pcid(|f, pc| { *f = nf; *pc = np; }); R::U }
            (129, [nf, p]) => { let nf = frame(*nf); let np = Pcid::new(u16::try_from(*p).unwrap()).unwrap(); Cr3::update_pcid_no_flush(|f, pc| { *f = nf; *pc = np; }); R::U }
            (130, []) => R::Z(Cr4::read().bits()),
            (131, []) => R::Z(Cr4::read_raw()),
            (132, [f]) => { Cr4::write(Cr4Flags::from_bits(*f).unwrap()); R::U }
            (133, [v]) => { Cr4::write_raw(*v); R::U }
            (134, [t]) => { Cr4::update(|f| f.toggle(Cr4Flags::from_bits_truncate(*t))); R::U }
            (140, [n]) => R::Z(match n { 0 => Dr0::read(), 1 => Dr1::read(), 2 => Dr2::read(), 3 => Dr3::read(), _ => panic!() }),
            (141, [n, v]) => { match n { 0 => Dr0::write(*v), 1 => Dr1::write(*v), 2 => Dr2::write(*v), 3 => Dr3::write(*v), _ => panic!() }; R::U }
            (150, []) => R::Z(Dr6::read().bits()),
            (151, []) => R::Z(Dr6::read_raw()),
            (152, []) => R::Z(Dr7::read().bits()),
            (153, []) => R::Z(Dr7::read_raw()),
            (154, [v]) => { Dr7::write(Dr7Value::from_bits(*v).unwrap()); R::U }
            (155, [v]) => { Dr7::write_raw(*v); R::U }
            (156, [n, cd, sz, t]) => {
                // the architectural encodings (R/W: 00 execute, 01 write, 10 I/O, 11 read/write; LEN: 00 1 byte,
                // 01 2 bytes, 10 8 bytes, 11 4 bytes) are turned into the crate's NAMED variants here
                let cdv = match *cd { 0 => BreakpointCondition::InstructionExecution, 1 => BreakpointCondition::DataWrites, 2 => BreakpointCondition::IoReadsWrites, 3 => BreakpointCondition::DataReadsWrites, _ => panic!() };
                let szv = match *sz { 0 => BreakpointSize::Length1B, 1 => BreakpointSize::Length2B, 2 => BreakpointSize::Length8B, 3 => BreakpointSize::Length4B, _ => panic!() };
                let (n, cd, sz) = (dr_num(*n), cdv, szv);
                Dr7::update(|v| { v.set_condition(n, cd); v.set_size(n, sz); v.toggle_flags(Dr7Flags::from_bits_truncate(*t)); });
                R::U
            }
            (160, []) => R::Z(XCr0::read().bits()),
            (161, []) => R::Z(XCr0::read_raw()),
            (162, [f]) => { XCr0::write(XCr0Flags::from_bits(*f).unwrap()); R::U }
            (163, [v]) => { XCr0::write_raw(*v); R::U }
            (164, [t]) => { XCr0::update(|f| f.toggle(XCr0Flags::from_bits_truncate(*t))); R::U }
            (170, [n]) => R::Z(Msr::new(*n as u32).read()),
            (171, [n, v]) => { Msr::new(*n as u32).write(*v); R::U }
            (180, []) => R::Z(Efer::read().bits()),
            (181, []) => R::Z(Efer::read_raw()),
            (182, [f]) => { Efer::write(EferFlags::from_bits(*f).unwrap()); R::U }
            (183, [v]) => { Efer::write_raw(*v); R::U }
            (184, [t]) => { Efer::update(|f| f.toggle(EferFlags::from_bits_truncate(*t))); R::U }
            (190, []) => R::Z(FsBase::read().as_u64()),
            (191, [v]) => { FsBase::write(VirtAddr::new(*v)); R::U }
            (192, []) => R::Z(GsBase::read().as_u64()),
            (193, [v]) => { GsBase::write(VirtAddr::new(*v)); R::U }
            (194, []) => R::Z(KernelGsBase::read().as_u64()),
            (195, [v]) => { KernelGsBase::write(VirtAddr::new(*v)); R::U }
            (196, []) => R::Z(LStar::read().as_u64()),
            (197, [v]) => { LStar::write(VirtAddr::new(*v)); R::U }
            (200, []) => { let (a, b) = Star::read_raw(); R::P(a as u64, b as u64) }
            (201, []) => { let (a, b, c, d) = Star::read(); R::L(vec![a.0 as u64, b.0 as u64, c.0 as u64, d.0 as u64]) }
            (202, [sr, sc]) => { Star::write_raw(*sr as u16, *sc as u16); R::U }
            (203, [a1, a2, a3, a4]) => {
                // the error enum is not nameable from outside the crate: classify by its Debug name
                let r = Star::write(SegmentSelector(*a1 as u16), SegmentSelector(*a2 as u16), SegmentSelector(*a3 as u16), SegmentSelector(*a4 as u16));
                R::Z(match r {
                    Ok(()) => 0,
                    Err(e) => match format!("{:?}", e).as_str() { "SysretOffset" => 1, "SyscallOffset" => 2, "SysretPrivilegeLevel" => 3, "SyscallPrivilegeLevel" => 4, _ => 99 },
                })
            }
            (210, []) => R::Z(SFMask::read().bits()),
            (211, [v]) => { SFMask::write(RFlags::from_bits(*v).unwrap()); R::U }
            (212, [t]) => { SFMask::update(|f| f.toggle(RFlags::from_bits_truncate(*t))); R::U }
            (220, []) => { let (f, p) = UCet::read(); R::P(f.bits(), p.start_address().as_u64()) }
            (221, [f, p]) => { UCet::write(CetFlags::from_bits(*f).unwrap(), page(*p)); R::U }
            (222, [t, p]) => { let np = page(*p); UCet::update(|f, pg| { f.toggle(CetFlags::from_bits_truncate(*t)); *pg = np; }); R::U }
            (223, []) => { let (f, p) = SCet::read(); R::P(f.bits(), p.start_address().as_u64()) }
            (224, [f, p]) => { SCet::write(CetFlags::from_bits(*f).unwrap(), page(*p)); R::U }
            (225, [t, p]) => { let np = page(*p); SCet::update(|f, pg| { f.toggle(CetFlags::from_bits_truncate(*t)); *pg = np; }); R::U }
            (230, []) => R::L(Pat::read().iter().map(|t| t.bits() as u64).collect()),
            (231, [t0, t1, t2, t3, t4, t5, t6, t7]) => {
                let f = |t: &u64| PatMemoryType::from_bits(u8::try_from(*t).unwrap()).unwrap();
                Pat::write([f(t0), f(t1), f(t2), f(t3), f(t4), f(t5), f(t6), f(t7)]);
                R::U
            }
            (240, []) => { let (f, fl) = ApicBase::read(); R::P(f.start_address().as_u64(), fl.bits()) }
            (241, []) => { let (f, raw) = ApicBase::read_raw(); R::P(f.start_address().as_u64(), raw) }
            (242, [fr, fl]) => { ApicBase::write(frame(*fr), ApicBaseFlags::from_bits(*fl).unwrap()); R::U }
            (243, [fr, fl]) => { ApicBase::write_raw(frame(*fr), *fl); R::U }
            (250, [n]) => R::Z(match n { 0 => ES::get_reg(), 1 => CS::get_reg(), 2 => SS::get_reg(), 3 => DS::get_reg(), 4 => FS::get_reg(), _ => GS::get_reg() }.0 as u64),
            (260, [n, sel]) => {
                let s = SegmentSelector(*sel as u16);
                match n { 0 => ES::set_reg(s), 1 => CS::set_reg(s), 2 => SS::set_reg(s), 3 => DS::set_reg(s), 4 => FS::set_reg(s), _ => GS::set_reg(s) };
                R::U
            }
            (272, []) => R::Z(GS::read_base().as_u64()),
            (273, [v]) => { if guarded_gs_write(*v) { R::U } else { R::Z(0xbad0_f5ba_5e) } }
            (274, []) => { GS::swap(); R::U }
            (280, [sel]) => { x86_64::instructions::tables::load_tss(SegmentSelector(*sel as u16)); R::U }
            (300, []) => R::Z(mxcsr::read().bits() as u64),
            (301, [v]) => { mxcsr::write(MxCsr::from_bits(u32::try_from(*v).unwrap()).unwrap()); R::U }
            (302, [t]) => { mxcsr::update(|f| f.toggle(MxCsr::from_bits_truncate(*t as u32))); R::U }
            (310, []) => {
                // the answer may depend on bit 9 only: also with another (harmless, user-writable) RFLAGS bit set
                let plain = interrupts::are_enabled();
                set_id_flag(true);
                let with_id = interrupts::are_enabled();
                set_id_flag(false);
                if plain != with_id { panic!("are_enabled depends on RFLAGS bits other than IF"); }
                R::Z(plain as u64)
            }
            (311, []) => { interrupts::enable(); R::U }
            (312, []) => { interrupts::disable(); R::U }
            (313, tree) => {
                // every second shape runs with the ID flag (bit 21) set in the real RFLAGS: only bit 9 may matter
                let id = tree.len() % 2 == 0;
                if id { set_id_flag(true); }
                let mut obs = vec![]; let mut it = tree.iter(); run_tree(&mut it, &mut obs, 0);
                if id { set_id_flag(false); }
                R::L(obs)
            }
            (314, []) => { interrupts::enable_and_hlt(); R::U }
            (315, []) => { x86_64::instructions::hlt(); R::U }
            (320, [w, port, kind]) => {
                let p = *port as u16;
                R::Z(match (w, kind) {
                    (8, 0) => PortGeneric::<u8, ReadWriteAccess>::new(p).read() as u64,
                    (8, _) => PortGeneric::<u8, ReadOnlyAccess>::new(p).read() as u64,
                    (16, 0) => PortGeneric::<u16, ReadWriteAccess>::new(p).read() as u64,
                    (16, _) => PortGeneric::<u16, ReadOnlyAccess>::new(p).read() as u64,
                    (32, 0) => PortGeneric::<u32, ReadWriteAccess>::new(p).read() as u64,
                    _ => PortGeneric::<u32, ReadOnlyAccess>::new(p).read() as u64,
                })
            }
            (321, [w, port, v, kind]) => {
                let p = *port as u16;
                match (w, kind) {
                    (8, 0) => PortGeneric::<u8, ReadWriteAccess>::new(p).write(*v as u8),
                    (8, _) => PortGeneric::<u8, WriteOnlyAccess>::new(p).write(*v as u8),
                    (16, 0) => PortGeneric::<u16, ReadWriteAccess>::new(p).write(*v as u16),
                    (16, _) => PortGeneric::<u16, WriteOnlyAccess>::new(p).write(*v as u16),
                    (32, 0) => PortGeneric::<u32, ReadWriteAccess>::new(p).write(*v as u32),
                    _ => PortGeneric::<u32, WriteOnlyAccess>::new(p).write(*v as u32),
                };
                R::U
            }
            (322, [w, kind, p1, p2]) => {
                fn cmp<T, A>(p1: u16, p2: u16) -> Vec<u64> {
                    let a = PortGeneric::<T, A>::new(p1);
                    let b = PortGeneric::<T, A>::new(p2);
                    let c = a.clone();
                    // a clone made INTO an existing port object (Clone::clone_from) must refer to the cloned port too
                    let mut d = PortGeneric::<T, A>::new(p2);
                    d.clone_from(&a);
                    // the port number of the clone, read through Debug-free means: equality with every port is decided by the number
                    // `!=` must be the negation of `==`, whichever port is the larger one
                    let eq = a == b;
                    if (a != b) == eq || (b != a) == eq || (b == a) != eq { return vec![0xbad, 0, 0]; }
                    vec![eq as u64, (c == a && d == a) as u64, if c == PortGeneric::<T, A>::new(p1) && d == PortGeneric::<T, A>::new(p1) { p1 as u64 } else { 0xffff_ffff }]
                }
                let (p1, p2) = (*p1 as u16, *p2 as u16);
                R::L(match (w, kind) {
                    (8, 0) => cmp::<u8, ReadWriteAccess>(p1, p2),
                    (8, 1) => cmp::<u8, ReadOnlyAccess>(p1, p2),
                    (8, _) => cmp::<u8, WriteOnlyAccess>(p1, p2),
                    (16, 0) => cmp::<u16, ReadWriteAccess>(p1, p2),
                    (16, 1) => cmp::<u16, ReadOnlyAccess>(p1, p2),
                    (16, _) => cmp::<u16, WriteOnlyAccess>(p1, p2),
                    (32, 0) => cmp::<u32, ReadWriteAccess>(p1, p2),
                    (32, 1) => cmp::<u32, ReadOnlyAccess>(p1, p2),
                    _ => cmp::<u32, WriteOnlyAccess>(p1, p2),
                })
            }
            (330, [a1]) => { tlb::flush(VirtAddr::new(*a1)); R::U }
            (331, []) => { tlb::flush_all(); R::U }
            (332, [kind, a1, pcid]) => {
                let p = Pcid::new(u16::try_from(*pcid).unwrap()).unwrap();
                let va = VirtAddr::new(*a1);
                tlb::flush_pcid(match kind { 0 => InvPcidCommand::Address(va, p), 1 => InvPcidCommand::Single(p), 2 => InvPcidCommand::All, _ => InvPcidCommand::AllExceptGlobal });
                R::U
            }
            (334, []) => { Invlpgb::verif_new(0, false, 0).tlbsync(); R::U }
            (340, [limit, base]) => { x86_64::instructions::tables::lgdt(&DescriptorTablePointer { limit: *limit as u16, base: VirtAddr::new(*base) }); R::U }
            (341, [limit, base]) => { x86_64::instructions::tables::lidt(&DescriptorTablePointer { limit: *limit as u16, base: VirtAddr::new(*base) }); R::U }
            _ => R::LI(vec![-99]),
        }
    }
}

/// the INVLPGB builder (fid 333); returns asid_ok and runs flush()
fn call_builder(a: &[u64]) -> Option<Vec<i128>> {
    if let [cmax, nest, nas, hasr, s, e, szk, hp, p, ha, asid, g, f, n] = a {
        let inv = Invlpgb::verif_new(*cmax as u16, *nest != 0, *nas as u32);
        let mut asid_ok = true;
        macro_rules! finish {
            ($b:expr) => {{
                let mut b = $b;
                unsafe {
                    if *hp != 0 {
                        b.pcid(Pcid::new(u16::try_from(*p).unwrap()).unwrap());
                    }
                    if *ha != 0 {
                        if b.asid(*asid as u16).is_err() {
                            asid_ok = false;
                        }
                    }
                }
                if *g != 0 {
                    b.include_global();
                }
                if *f != 0 {
                    b.final_translation_only();
                }
                let b = if *n != 0 { b.include_nested_translations() } else { b };
                b.flush();
            }};
        }
        if *hasr == 2 {
            // the same request with every option set BEFORE the page range is attached
            let mut b0 = inv.build();
            unsafe {
                if *hp != 0 { b0.pcid(Pcid::new(u16::try_from(*p).unwrap()).unwrap()); }
                if *ha != 0 { if b0.asid(*asid as u16).is_err() { asid_ok = false; } }
            }
            if *g != 0 { b0.include_global(); }
            if *f != 0 { b0.final_translation_only(); }
            let b0 = if *n != 0 { b0.include_nested_translations() } else { b0 };
            if *szk == 0 { b0.pages(Page::range(pgs::<Size4KiB>(*s), pgs::<Size4KiB>(*e))).flush(); }
            else { b0.pages(Page::range(pgs::<Size2MiB>(*s), pgs::<Size2MiB>(*e))).flush(); }
        } else if *hasr == 0 {
            finish!(inv.build());
        } else if *szk == 0 {
            finish!(inv.build().pages(Page::range(pgs::<Size4KiB>(*s), pgs::<Size4KiB>(*e))));
        } else {
            finish!(inv.build().pages(Page::range(pgs::<Size2MiB>(*s), pgs::<Size2MiB>(*e))));
        }
        Some(vec![asid_ok as i128])
    } else {
        None
    }
}

fn run_inner(c: &[u64], oc: bool) -> Vec<i128> {
    if c.len() < 2 {
        return vec![-99];
    }
    let fid = c[0];
    let np = c[1] as usize;
    if c.len() < 2 + 3 * np {
        return vec![-99];
    }
    let cpu = softcpu::cpu();
    cpu.reset();
    cpu.sreg = [SREG_UNSET; 6];
    native_set_mxcsr(0x1f80);
    let priors: Vec<(u64, u64)> = (0..np).map(|i| (c[2 + 3 * i], c[3 + 3 * i])).collect();
    for i in 0..np {
        load_prior(c[2 + 3 * i], c[3 + 3 * i], c[4 + 3 * i]);
    }
    let args = &c[2 + 3 * np..];
    let mut prefix: Vec<i128> = vec![];
    let res: Option<R> = if fid == 333 {
        match catch(|| call_builder(args)) {
            Some(Some(p)) => {
                prefix = p;
                Some(R::Z(1))
            }
            Some(None) => Some(R::LI(vec![-99])),
            None => None,
        }
    } else {
        catch(|| call(fid, args, oc))
    };
    let log = cpu.take_log();
    let out = match res {
        None => vec![PANIC],
        Some(R::LI(l)) if l == vec![-99] => vec![-99],
        Some(r) => {
            let mut v = prefix;
            v.extend(canon_events(&log));
            v.push(SEP);
            v.extend(enc(r));
            v.push(SEP);
            for (cls, idx) in &priors {
                v.push(read_prior(*cls, *idx) as i128);
            }
            v
        }
    };
    // restore the native state that later code may depend on
    native_set_mxcsr(0x1f80);
    native_set_sreg(0, 0);
    native_set_sreg(3, 0);
    let _ = port_rw::<ReadWriteAccess>;
    out
}

pub fn run_oc(c: &[u64], oc: bool) -> Vec<i128> {
    softcpu::install_once();
    run_inner(c, oc)
}
pub fn run(c: &[u64]) -> Vec<i128> {
    run_oc(c, cfg!(debug_assertions))
}
