//! Generators and oracles for the machine-level properties C11, C16, C17, C18.
//! The oracles are written from the property text / architecture manuals (register numbers,
//! modelled-bit masks), independently of the Coq model.
use crate::gen_addr::{any_u64, boundary, canon, is_canonical, phys};
use crate::util::*;
use std::io::Write;

fn emit(out: &mut impl Write, c: &[u64]) {
    writeln!(out, "{}", fmt_case(c)).unwrap();
}

// architectural constants (manual side)
const CR0_ALL: u64 = 0xE005_003F;
const CR3_ALL: u64 = 0x18;
const CR4_ALL: u64 = 0x01FF_7FFF;
const EFER_ALL: u64 = 0xFD01;
const XCR0_ALL: u64 = 0x4000_0000_0000_02FF;
const RFLAGS_ALL: u64 = 0x3F7FD5;
const DR6_ALL: u64 = 0x1E00F;
const DR7_FLAGS: u64 = 0x2BFF;
const DR7_VALID: u64 = 0xFFFF_2BFF;
const CET_ALL: u64 = 0xC3F;
const APIC_ALL: u64 = 0xD00;
const ADDR: u64 = 0x000f_ffff_ffff_f000;
const M_EFER: u64 = 0xC000_0080;
const M_STAR: u64 = 0xC000_0081;
const M_LSTAR: u64 = 0xC000_0082;
const M_SFMASK: u64 = 0xC000_0084;
const M_FS: u64 = 0xC000_0100;
const M_GS: u64 = 0xC000_0101;
const M_KGS: u64 = 0xC000_0102;
const M_UCET: u64 = 0x6A0;
const M_SCET: u64 = 0x6A2;
const M_PAT: u64 = 0x277;
const M_APIC: u64 = 0x1B;
const BYSTANDER_MSRS: [u64; 12] = [M_EFER, M_STAR, M_LSTAR, M_SFMASK, M_FS, M_GS, M_KGS, M_UCET, M_SCET, M_PAT, M_APIC, 0x10];

fn subset(rng: &mut Rng, all: u64) -> u64 {
    match rng.below(6) {
        0 => all,
        1 => 0,
        2 => {
            // a single declared bit
            let bits: Vec<u32> = (0..64).filter(|i| all >> i & 1 == 1).collect();
            1u64 << rng.pick(&bits)
        }
        _ => rng.next() & all,
    }
}
/// register content: all-ones, single bits, reserved-only, modelled-only, random
fn content(rng: &mut Rng, all: u64) -> u64 {
    match rng.below(7) {
        0 => u64::MAX,
        1 => 1u64 << rng.below(64),
        2 => rng.next() & !all,
        3 => rng.next() & all,
        4 => 0,
        _ => rng.next(),
    }
}
fn aframe(rng: &mut Rng) -> u64 {
    match rng.below(4) {
        0 => 0x1000 << rng.below(40),
        1 => ADDR,
        _ => phys(rng) & !0xfff,
    }
}
struct Case(Vec<u64>, Vec<u64>);
impl Case {
    fn new(fid: u64) -> Self {
        Case(vec![fid], vec![])
    }
    fn prior(mut self, cls: u64, idx: u64, v: u64) -> Self {
        self.1.extend([cls, idx, v]);
        self
    }
    fn msr_bystanders(mut self, rng: &mut Rng, except: u64) -> Self {
        for m in BYSTANDER_MSRS {
            if m != except {
                // values that every typed reader accepts
                let v = match m {
                    M_PAT => 0x0007_0406_0007_0406,
                    M_SFMASK => rng.next() & RFLAGS_ALL,
                    M_FS | M_GS | M_KGS | M_LSTAR | M_UCET | M_SCET => canon(rng),
                    _ => rng.next(),
                };
                self.1.extend([3, m, v]);
            }
        }
        self
    }
    fn args(self, a: &[u64]) -> Vec<u64> {
        let mut v = self.0;
        v.push((self.1.len() / 3) as u64);
        v.extend(self.1);
        v.extend_from_slice(a);
        v
    }
}

fn pat_table(rng: &mut Rng) -> [u64; 8] {
    let mut t = [0u64; 8];
    for x in t.iter_mut() {
        *x = rng.pick(&[0u64, 1, 4, 5, 6, 7]);
    }
    t
}

fn gen_c16(rng: &mut Rng, out: &mut impl Write, n: u64) {
    for _ in 0..n {
        // control registers: all four get distinct priors so that a wrong register number shows
        for (base, idx, all) in [(100u64, 0u64, CR0_ALL), (130, 4, CR4_ALL)] {
            let mk = |rng: &mut Rng, fid: u64| Case::new(fid).prior(0, 0, if idx == 0 { content(rng, all) } else { rng.next() }).prior(0, 2, rng.next()).prior(0, 3, rng.next()).prior(0, 4, if idx == 4 { content(rng, all) } else { rng.next() });
            emit(out, &mk(rng, base).args(&[]));
            emit(out, &mk(rng, base + 1).args(&[]));
            let f = if rng.chance(1, 30) { rng.next() } else { subset(rng, all) };
            emit(out, &mk(rng, base + 2).args(&[f]));
            emit(out, &mk(rng, base + 3).args(&[any_u64(rng)]));
            emit(out, &mk(rng, base + 4).args(&[any_u64(rng)]));
        }
        emit(out, &Case::new(110).prior(0, 2, any_u64(rng)).prior(0, 3, rng.next()).args(&[]));
        emit(out, &Case::new(111).prior(0, 2, any_u64(rng)).prior(0, 0, rng.next()).args(&[]));
        // CR3
        let cr3 = |rng: &mut Rng| -> u64 {
            let low = match rng.below(4) { 0 => rng.below(4096), 1 => rng.pick(&[0u64, 8, 16, 24]), 2 => 0xfff, _ => rng.below(4096) };
            let hi = match rng.below(4) { 0 => 1u64 << 63, 1 => rng.next() & 0xfff0_0000_0000_0000, _ => 0 };
            aframe(rng) | low | hi
        };
        for fid in 120..=122 {
            emit(out, &Case::new(fid).prior(0, 3, cr3(rng)).prior(0, 0, rng.next()).prior(0, 4, rng.next()).args(&[]));
        }
        let fl = if rng.chance(1, 20) { rng.below(64) } else { rng.pick(&[0u64, 8, 16, 24]) };
        emit(out, &Case::new(123).prior(0, 3, cr3(rng)).prior(0, 4, rng.next()).args(&[aframe(rng), fl]));
        let pc = if rng.chance(1, 20) { 4096 + rng.below(100) } else if rng.chance(1, 4) { rng.pick(&[0u64, 1, 4095, 2048]) } else { rng.below(4096) };
        emit(out, &Case::new(124).prior(0, 3, cr3(rng)).args(&[aframe(rng), pc]));
        emit(out, &Case::new(125).prior(0, 3, cr3(rng)).args(&[aframe(rng), pc]));
        emit(out, &Case::new(126).prior(0, 3, cr3(rng)).args(&[aframe(rng), rng.below(65536)]));
        emit(out, &Case::new(127).prior(0, 3, cr3(rng)).args(&[aframe(rng), rng.next()]));
        emit(out, &Case::new(128).prior(0, 3, cr3(rng)).args(&[aframe(rng), rng.below(4096)]));
        emit(out, &Case::new(129).prior(0, 3, cr3(rng)).args(&[aframe(rng), rng.below(4096)]));
        if rng.chance(1, 8) {
            emit(out, &Case::new(123).prior(0, 3, cr3(rng)).args(&[aframe(rng) | 0x800, 0]));
        }
        // debug registers
        let drs = |rng: &mut Rng, fid: u64| { let mut c = Case::new(fid); for i in 0..8 { c = c.prior(1, i, if i == 7 { content(rng, DR7_VALID) } else if i == 6 { content(rng, DR6_ALL) } else { any_u64(rng) }); } c };
        let nn = rng.below(4);
        emit(out, &drs(rng, 140).args(&[nn]));
        emit(out, &drs(rng, 141).args(&[nn, any_u64(rng)]));
        for fid in [150, 151, 152, 153] { emit(out, &drs(rng, fid).args(&[])); }
        let dv = if rng.chance(1, 20) { rng.next() } else { rng.next() & DR7_VALID };
        emit(out, &drs(rng, 154).args(&[dv]));
        emit(out, &drs(rng, 155).args(&[any_u64(rng)]));
        emit(out, &drs(rng, 156).args(&[rng.below(4), rng.below(4), rng.below(4), rng.next()]));
        // XCR0
        let xf = |rng: &mut Rng| -> u64 { match rng.below(5) { 0 => 1, 1 => 7, 2 => 0xe7, 3 => 0x1f | (1 << 9), _ => subset(rng, XCR0_ALL) } };
        emit(out, &Case::new(160).prior(2, 0, content(rng, XCR0_ALL)).args(&[]));
        emit(out, &Case::new(161).prior(2, 0, content(rng, XCR0_ALL)).args(&[]));
        emit(out, &Case::new(162).prior(2, 0, content(rng, XCR0_ALL)).args(&[xf(rng)]));
        emit(out, &Case::new(163).prior(2, 0, content(rng, XCR0_ALL)).args(&[any_u64(rng)]));
        emit(out, &Case::new(164).prior(2, 0, content(rng, XCR0_ALL)).args(&[rng.next() & 0xff]));
        // MSRs
        let idx = match rng.below(4) { 0 => rng.pick(&BYSTANDER_MSRS), 1 => rng.below(0x2000), _ => rng.next() & 0xffff_ffff };
        emit(out, &Case::new(170).msr_bystanders(rng, idx).prior(3, idx, any_u64(rng)).args(&[idx]));
        emit(out, &Case::new(171).msr_bystanders(rng, idx).prior(3, idx, any_u64(rng)).args(&[idx, any_u64(rng)]));
        emit(out, &Case::new(180).msr_bystanders(rng, M_EFER).prior(3, M_EFER, content(rng, EFER_ALL)).args(&[]));
        emit(out, &Case::new(181).msr_bystanders(rng, M_EFER).prior(3, M_EFER, content(rng, EFER_ALL)).args(&[]));
        emit(out, &Case::new(182).msr_bystanders(rng, M_EFER).prior(3, M_EFER, content(rng, EFER_ALL)).args(&[if rng.chance(1, 30) { rng.next() } else { subset(rng, EFER_ALL) }]));
        emit(out, &Case::new(183).msr_bystanders(rng, M_EFER).prior(3, M_EFER, content(rng, EFER_ALL)).args(&[any_u64(rng)]));
        emit(out, &Case::new(184).msr_bystanders(rng, M_EFER).prior(3, M_EFER, content(rng, EFER_ALL)).args(&[rng.next()]));
        for (k, m) in [(190u64, M_FS), (192, M_GS), (194, M_KGS), (196, M_LSTAR)] {
            let v = if rng.chance(1, 6) { any_u64(rng) } else { canon(rng) };
            emit(out, &Case::new(k).msr_bystanders(rng, m).prior(3, m, v).args(&[]));
            let w = if rng.chance(1, 12) { any_u64(rng) } else { canon(rng) };
            emit(out, &Case::new(k + 1).msr_bystanders(rng, m).prior(3, m, any_u64(rng)).args(&[w]));
        }
        // STAR
        let starv = |rng: &mut Rng| -> u64 { match rng.below(4) { 0 => (rng.pick(&[0xfff0u64, 0xfff7, 0xfff8, 0xffef, 0xffff, 0]) << 48) | (rng.below(65536) << 32) | rng.below(1 << 32), _ => rng.next() } };
        emit(out, &Case::new(200).msr_bystanders(rng, M_STAR).prior(3, M_STAR, starv(rng)).args(&[]));
        emit(out, &Case::new(201).msr_bystanders(rng, M_STAR).prior(3, M_STAR, starv(rng)).args(&[]));
        emit(out, &Case::new(202).msr_bystanders(rng, M_STAR).prior(3, M_STAR, rng.next()).args(&[rng.below(65536), rng.below(65536)]));
        {
            // selector quadruples around the documented relations
            let ss_sysret = match rng.below(6) { 0 => rng.below(12), 1 => 0xfff8 + rng.below(8), _ => (rng.below(8192) << 3) | 3 };
            let cs_sysret = match rng.below(5) { 0 => rng.below(65536), 1 => (ss_sysret + 8 + rng.below(3)) & 0xffff, _ => (ss_sysret + 8) & 0xffff };
            let cs_syscall = match rng.below(5) { 0 => rng.below(16), _ => rng.below(8190) << 3 };
            let ss_syscall = match rng.below(5) { 0 => rng.below(65536), 1 => (cs_syscall + 8) | rng.below(4), _ => cs_syscall + 8 };
            let ss_sysret = if rng.chance(1, 8) { ss_sysret & !3 | rng.below(4) } else { ss_sysret };
            emit(out, &Case::new(203).msr_bystanders(rng, M_STAR).prior(3, M_STAR, rng.next()).args(&[cs_sysret, ss_sysret, cs_syscall, ss_syscall]));
        }
        // SFMASK
        let sfv = if rng.chance(1, 6) { any_u64(rng) } else { rng.next() & RFLAGS_ALL };
        emit(out, &Case::new(210).msr_bystanders(rng, M_SFMASK).prior(3, M_SFMASK, sfv).args(&[]));
        emit(out, &Case::new(211).msr_bystanders(rng, M_SFMASK).prior(3, M_SFMASK, rng.next()).args(&[if rng.chance(1, 20) { rng.next() } else { subset(rng, RFLAGS_ALL) }]));
        emit(out, &Case::new(212).msr_bystanders(rng, M_SFMASK).prior(3, M_SFMASK, rng.next() & RFLAGS_ALL).args(&[rng.next()]));
        // CET
        for (base, m) in [(220u64, M_UCET), (223, M_SCET)] {
            let pg = canon(rng) & !0xfff;
            let v = if rng.chance(1, 8) { any_u64(rng) } else { pg | (rng.next() & 0xfff) };
            emit(out, &Case::new(base).msr_bystanders(rng, m).prior(3, m, v).args(&[]));
            emit(out, &Case::new(base + 1).msr_bystanders(rng, m).prior(3, m, rng.next()).args(&[if rng.chance(1, 20) { rng.below(4096) } else { subset(rng, CET_ALL) }, canon(rng) & !0xfff]));
            emit(out, &Case::new(base + 2).msr_bystanders(rng, m).prior(3, m, (canon(rng) & !0xfff) | (rng.next() & 0xfff)).args(&[rng.next(), canon(rng) & !0xfff]));
        }
        // PAT
        let t = pat_table(rng);
        let mut pv = 0u64;
        for i in 0..8 { pv |= t[i] << (8 * i); }
        if rng.chance(1, 6) { pv ^= (rng.pick(&[2u64, 3, 8, 0x80, 0x10])) << (8 * rng.below(8)); }
        emit(out, &Case::new(230).msr_bystanders(rng, M_PAT).prior(3, M_PAT, pv).args(&[]));
        let mut t2 = pat_table(rng);
        if rng.chance(1, 15) { t2[rng.below(8) as usize] = rng.pick(&[2u64, 3, 8, 255]); }
        emit(out, &Case::new(231).msr_bystanders(rng, M_PAT).prior(3, M_PAT, rng.next()).args(&t2));
        // APIC base
        let av = |rng: &mut Rng| -> u64 { match rng.below(4) { 0 => 0xfee0_0900, 1 => 0xfee0_0000 | (rng.next() & 0xfff), _ => content(rng, APIC_ALL | ADDR) } };
        emit(out, &Case::new(240).msr_bystanders(rng, M_APIC).prior(3, M_APIC, av(rng)).args(&[]));
        emit(out, &Case::new(241).msr_bystanders(rng, M_APIC).prior(3, M_APIC, av(rng)).args(&[]));
        emit(out, &Case::new(242).msr_bystanders(rng, M_APIC).prior(3, M_APIC, av(rng)).args(&[aframe(rng), if rng.chance(1, 20) { rng.below(4096) } else { subset(rng, APIC_ALL) }]));
        emit(out, &Case::new(243).msr_bystanders(rng, M_APIC).prior(3, M_APIC, av(rng)).args(&[aframe(rng), rng.next() & 0xfff0_0000_0000_0fff]));
        // segments: ds/es/gs hold distinct legal selectors (0, 0x23, 0x2b, 0x33 are the only values a
        // Linux user process can keep there: null selectors with RPL != 0 are zeroed by the next IRET)
        let seg = rng.below(6);
        {
            let mut vals = [0u64, 0x23, 0x2b, 0x33];
            for i in (1..4).rev() { let j = rng.below(i as u64 + 1) as usize; vals.swap(i, j); }
            emit(out, &Case::new(250).prior(7, 0, vals[0]).prior(7, 1, 0x33).prior(7, 2, 0x2b).prior(7, 3, vals[1]).prior(7, 4, 0).prior(7, 5, vals[2]).args(&[seg]));
        }
        {
            let n = rng.below(6);
            // either a selector that executes natively (data registers: 0/0x23/0x2b/0x33; ss: 0x2b; never fs, whose
            // load would destroy the TLS base) or one that cannot be valid in a Linux process: TI=1 (empty LDT) or index >= 16
            let sel = if (n == 0 || n == 3 || n == 5) && rng.chance(1, 3) { rng.pick(&[0u64, 0x23, 0x2b, 0x33]) } else if n == 2 && rng.chance(1, 4) { 0x2b } else if rng.chance(1, 2) { (rng.below(8192) << 3) | 4 | rng.below(4) } else { ((16 + rng.below(8176)) << 3) | rng.below(4) };
            emit(out, &Case::new(260).prior(7, 0, 0).prior(7, 1, 0x33).prior(7, 2, 0x2b).prior(7, 3, 0).prior(7, 4, 0).prior(7, 5, 0).args(&[n, sel]));
        }
        emit(out, &Case::new(272).prior(8, 0, canon(rng)).args(&[]));
        emit(out, &Case::new(273).prior(8, 0, canon(rng)).args(&[canon(rng)]));
        emit(out, &Case::new(274).prior(3, M_GS, rng.next()).prior(3, M_KGS, rng.next()).prior(3, M_FS, rng.next()).args(&[]));
        emit(out, &Case::new(280).args(&[rng.below(65536)]));
        // MXCSR (exception masks kept set so that the process never takes SIGFPE)
        let mx = |rng: &mut Rng| -> u64 { 0x1f80 | (rng.next() & 0xe07f) };
        emit(out, &Case::new(300).prior(6, 0, mx(rng)).args(&[]));
        emit(out, &Case::new(301).prior(6, 0, mx(rng)).args(&[mx(rng)]));
        emit(out, &Case::new(302).prior(6, 0, mx(rng)).args(&[rng.next() & 0xe07f]));
    }
}

fn gen_tree(rng: &mut Rng, depth: u64, maxdepth: u64, v: &mut Vec<u64>) {
    if depth >= maxdepth || rng.chance(1, 3) {
        v.push(0);
    } else {
        let k = rng.below(4);
        v.push(if rng.chance(1, 5) { 2 } else { 1 });
        v.push(k);
        for _ in 0..k {
            gen_tree(rng, depth + 1, maxdepth, v);
        }
    }
}
/// all tree shapes with branching <= 2 up to a depth (exhaustive part)
fn all_trees(depth: u64) -> Vec<Vec<u64>> {
    if depth == 0 {
        return vec![vec![0]];
    }
    let sub = all_trees(depth - 1);
    let mut r = vec![vec![0], vec![1, 0]];
    for a in &sub {
        let mut v = vec![1, 1];
        v.extend(a);
        r.push(v);
    }
    if depth <= 2 {
        for a in &sub {
            for b in &sub {
                let mut v = vec![1, 2];
                v.extend(a);
                v.extend(b);
                r.push(v);
            }
        }
    }
    r
}

fn gen_range_for_invlpgb(rng: &mut Rng) -> (u64, u64, u64) {
    let szk = rng.below(2);
    let sz = if szk == 0 { 4096u64 } else { 1 << 21 };
    let len = match rng.below(6) { 0 => 0, 1 => 1, 2 => 2 + rng.below(5), 3 => 65534 + rng.below(4), 4 => rng.below(300), _ => rng.below(140000) };
    let place = rng.below(6);
    let (s, e) = match place {
        0 => (0, len * sz),
        1 => { let top = 1u64 << 47; (top - sz - (len.min(top / sz - 1)) * sz, top - sz) } // ends at the last page of the lower half
        2 => { let top = 0u64.wrapping_sub(sz); (top - len * sz, top) }            // ends at the last page
        3 => (0xffff_8000_0000_0000, 0xffff_8000_0000_0000 + len * sz),
        4 => { // spans the gap: start in the lower half, end in the upper
            let before = rng.below(5);
            let after = rng.below(5);
            ((1u64 << 47) - before * sz - sz, 0xffff_8000_0000_0000 + after * sz)
        }
        _ => { let s = (canon(rng) / sz) * sz; let room = if s < (1 << 47) { ((1u64 << 47) - sz - s) / sz } else { (0u64.wrapping_sub(sz) - s) / sz }; (s, s + len.min(room) * sz) }
    };
    (s, e, szk)
}

pub fn gen(prop: &str, seed: u64, thorough: bool, out: &mut impl Write) {
    let mut rng = Rng::new(seed ^ u64::from_str_radix(&prop[1..], 10).unwrap() * 0x3141592);
    let rng = &mut rng;
    match prop {
        "C16" => gen_c16(rng, out, if thorough { 40_000 } else { 1_200 }),
        "C17" => {
            for iflag in 0..2u64 {
                for fid in [310, 311, 312, 314, 315] {
                    emit(out, &Case::new(fid).prior(4, 0, iflag).args(&[]));
                }
                for t in all_trees(if thorough { 4 } else { 3 }) {
                    emit(out, &Case::new(313).prior(4, 0, iflag).args(&t));
                }
                // "for every nesting depth": plain chains far deeper than any fixed-width bookkeeping
                for d in [63u64, 64, 65, 66, 127, 128, 129, 255, 256, 257, 300, 1000] {
                    let mut t = vec![];
                    for _ in 0..d { t.push(1); t.push(1); }
                    t.push(0);
                    emit(out, &Case::new(313).prior(4, 0, iflag).args(&t));
                }
                // closures that open an interrupt window (enable ... disable) around a nested call
                for t in [vec![1u64, 1, 2, 1, 1, 1, 0], vec![1, 2, 0, 2, 2, 1, 1, 0, 0], vec![2, 1, 1, 1, 0], vec![1, 1, 2, 2, 1, 2, 0, 0, 1, 0], vec![1, 1, 1, 1, 2, 1, 1, 1, 0]] {
                    emit(out, &Case::new(313).prior(4, 0, iflag).args(&t));
                }
            }
            let n = if thorough { 200_000 } else { 6_000 };
            for _ in 0..n {
                let mut t = vec![];
                gen_tree(rng, 0, if thorough { 12 } else { 6 }, &mut t);
                if t.len() < 400 {
                    emit(out, &Case::new(313).prior(4, 0, rng.below(2)).args(&t));
                }
            }
        }
        "C18" => {
            // all 65536 ports x 3 widths x {read, write} x kinds
            let stride = 1;
            for port in (0..65536u64).step_by(stride) {
                for w in [8u64, 16, 32] {
                    let kind = rng.below(2);
                    emit(out, &Case::new(320).prior(5, 0, rng.next()).args(&[w, port, kind]));
                    let v = match rng.below(4) { 0 => (1u64 << w) - 1, 1 => 0, 2 => 1u64 << rng.below(w), _ => rng.next() & ((1u64 << w) - 1) };
                    emit(out, &Case::new(321).args(&[w, port, v, kind]));
                }
                if port % 16 == 0 || thorough {
                    let other = match rng.below(3) { 0 => port, 1 => port ^ (1 << rng.below(16)), _ => rng.below(65536) };
                    emit(out, &Case::new(322).args(&[rng.pick(&[8u64, 16, 32]), rng.below(3), port, other]));
                }
            }
        }
        "C11" => {
            let n = if thorough { 300_000 } else { 8_000 };
            for _ in 0..n {
                emit(out, &Case::new(330).args(&[canon(rng)]));
                // flush_all: every low-12-bit pattern matters (PCID)
                // architecturally CR3 reads bits 52-63 as zero (bit 63 is a write-only hint)
                let cr3 = aframe(rng) | rng.below(4096);
                emit(out, &Case::new(331).prior(0, 3, cr3).prior(0, 4, rng.next()).args(&[]));
                emit(out, &Case::new(332).args(&[rng.below(4), canon(rng), rng.below(4096)]));
            }
            for low in 0..4096u64 {
                emit(out, &Case::new(331).prior(0, 3, aframe(rng) | low).args(&[]));
                for kind in 0..4 {
                    emit(out, &Case::new(332).args(&[kind, boundary(rng) & 0x7fff_ffff_ffff, low]));
                }
            }
            emit(out, &Case::new(334).args(&[]));
            let nb = if thorough { 60_000 } else { 2_500 };
            for _ in 0..nb {
                let (s, e, szk) = gen_range_for_invlpgb(rng);
                let cmax = match rng.below(8) { 0 => 0, 1 => 1, 2 => rng.pick(&[2u64, 3, 7, 255, 256]), 3 => 65535, 4 => 65534, _ => rng.below(65536) };
                let span = if e > s { (e.wrapping_sub(s) & 0xffff_ffff_ffff) / if szk == 0 { 4096 } else { 1 << 21 } } else { 0 };
                // keep the number of requests bounded
                let cmax = if span / cmax.max(1) > 3000 { 65535 } else { cmax };
                let nest = rng.below(2);
                let nas = rng.pick(&[0u64, 1, 16, 65536, 1 << 20]);
                let opts = rng.below(32);
                let hasr = if rng.chance(1, 10) { 0 } else if rng.chance(1, 3) { 2 } else { 1 }; // 2: options set before pages()
                emit(out, &Case::new(333).args(&[cmax, nest, nas, hasr, s, e, szk, opts & 1, rng.below(4096), (opts >> 1) & 1, rng.below(65536), (opts >> 2) & 1, (opts >> 3) & 1, if nest == 1 || rng.chance(1, 10) { (opts >> 4) & 1 } else { 0 }]));
            }
        }
        _ => panic!("gen_mach: unknown property"),
    }
}

// ------------------------------------------------------------------------------------------
// oracles

struct Ans {
    events: Vec<[i128; 4]>,
    result: Vec<i128>,
    finals: Vec<i128>,
    panic: bool,
    prefix: Vec<i128>,
}
fn split(a: &[i128], prefix_len: usize) -> Option<Ans> {
    if a == [-1] {
        return Some(Ans { events: vec![], result: vec![], finals: vec![], panic: true, prefix: vec![] });
    }
    let prefix = a[..prefix_len.min(a.len())].to_vec();
    let a = &a[prefix_len.min(a.len())..];
    let p1 = a.iter().position(|x| *x == -3)?;
    let p2 = p1 + 1 + a[p1 + 1..].iter().position(|x| *x == -3)?;
    if p1 % 4 != 0 {
        return None;
    }
    Some(Ans { events: a[..p1].chunks(4).map(|c| [c[0], c[1], c[2], c[3]]).collect(), result: a[p1 + 1..p2].to_vec(), finals: a[p2 + 1..].to_vec(), panic: false, prefix })
}
struct Parsed<'a> {
    fid: u64,
    priors: Vec<(u64, u64, u64)>,
    args: &'a [u64],
}
fn parse(c: &[u64]) -> Parsed<'_> {
    let np = c[1] as usize;
    Parsed { fid: c[0], priors: (0..np).map(|i| (c[2 + 3 * i], c[3 + 3 * i], c[4 + 3 * i])).collect(), args: &c[2 + 3 * np..] }
}
impl Parsed<'_> {
    fn prior(&self, cls: u64, idx: u64) -> u64 {
        self.priors.iter().rev().find(|p| p.0 == cls && p.1 == idx).map(|p| p.2).unwrap_or(0)
    }
    fn final_of(&self, a: &Ans, cls: u64, idx: u64) -> Option<u64> {
        self.priors.iter().rposition(|p| p.0 == cls && p.1 == idx).and_then(|i| a.finals.get(i)).map(|x| *x as u64)
    }
    /// every prior register other than (cls, idx) must be unchanged
    fn others_unchanged(&self, a: &Ans, cls: u64, idxs: &[u64]) -> bool {
        self.priors.iter().enumerate().all(|(i, p)| (p.0 == cls && idxs.contains(&p.1)) || a.finals.get(i).map(|x| *x as u64) == Some(p.2) || self.priors.iter().skip(i + 1).any(|q| q.0 == p.0 && q.1 == p.1))
    }
}

type Verdict = (Option<&'static str>, bool);

fn typed_family(p: &Parsed, a: &Ans, off: u64, rd_op: i128, wr_op: i128, cls: u64, idx: u64, all: u64) -> Verdict {
    let old = p.prior(cls, idx);
    let nt = old & !all != 0;
    let only = |evs: &[[i128; 4]], ops: &[i128]| evs.len() == ops.len() && evs.iter().zip(ops).all(|(e, o)| e[0] == *o && e[1] == idx as i128);
    match off {
        0 | 1 => {
            if a.panic { return (Some("read panicked"), true); }
            if !only(&a.events, &[rd_op]) { return (Some("typed/raw read must execute exactly one read of the architectural register it is named after"), true); }
            let exp = if off == 0 { old & all } else { old };
            if a.result != [exp as i128] { return (Some("typed read must return exactly the modelled bits of the raw value; raw read the raw value"), true); }
            if !p.others_unchanged(a, cls, &[]) { return (Some("a read changed register state"), true); }
            (None, nt)
        }
        2 => {
            let f = p.args[0];
            if f & !all != 0 { return (if a.panic { None } else { Some("undeclared flag bits must be rejected") }, true); }
            if a.panic { return (Some("typed write panicked on declared flags"), true); }
            if !only(&a.events, &[rd_op, wr_op]) { return (Some("typed write must read then write exactly the architectural register it is named after"), true); }
            let exp = (old & !all) | f;
            if a.events[1][2] != exp as i128 || p.final_of(a, cls, idx) != Some(exp) { return (Some("typed write must store the given fields while preserving every bit the type does not model"), true); }
            if !p.others_unchanged(a, cls, &[idx]) { return (Some("write changed another register"), true); }
            (None, nt)
        }
        3 => {
            let v = p.args[0];
            if a.panic { return (Some("raw write panicked"), true); }
            if !only(&a.events, &[wr_op]) { return (Some("raw write must execute exactly one write of the architectural register"), true); }
            if a.events[0][2] != v as i128 || p.final_of(a, cls, idx) != Some(v) { return (Some("raw write must store exactly the given value"), true); }
            if !p.others_unchanged(a, cls, &[idx]) { return (Some("write changed another register"), true); }
            (None, true)
        }
        _ => {
            let t = p.args[0] & all;
            if a.panic { return (Some("update panicked"), true); }
            let exp = (old & !all) | ((old & all) ^ t);
            if p.final_of(a, cls, idx) != Some(exp) { return (Some("update must equal read-modify-write"), true); }
            (None, nt)
        }
    }
}

fn judge_c16(c: &[u64], raw: &[i128]) -> Verdict {
    let p = parse(c);
    let a = match split(raw, 0) { Some(a) => a, None => return (Some("malformed answer"), true) };
    const RD: i128 = 10;
    const WR: i128 = 11;
    match p.fid {
        100..=104 => typed_family(&p, &a, p.fid - 100, 6, 7, 0, 0, CR0_ALL),
        130..=134 => typed_family(&p, &a, p.fid - 130, 6, 7, 0, 4, CR4_ALL),
        180..=184 => typed_family(&p, &a, p.fid - 180, RD, WR, 3, M_EFER, EFER_ALL),
        110 | 111 => {
            let v = p.prior(0, 2);
            if a.panic || a.events.len() != 1 || a.events[0][0] != 6 || a.events[0][1] != 2 { return (Some("Cr2 read must read CR2 once"), true); }
            let exp: i128 = if p.fid == 111 || is_canonical(v) { v as i128 } else { -2 };
            if a.result != [exp] { return (Some("Cr2::read must return the address exactly when it is canonical"), true); }
            (None, !is_canonical(v))
        }
        120..=122 => {
            let v = p.prior(0, 3);
            if a.panic { return (Some("Cr3 read panicked"), true); }
            if a.events.len() != 1 || a.events[0][0] != 6 || a.events[0][1] != 3 { return (Some("Cr3 read must read CR3 once"), true); }
            let second = match p.fid { 120 => v & CR3_ALL, _ => v & 0xfff };
            if a.result != [(v & ADDR) as i128, second as i128] { return (Some("Cr3 read must return the frame in bits 12-51 and the flags / low 12 bits / PCID"), true); }
            (None, v & 0xfff & !CR3_ALL != 0 || v >> 52 != 0)
        }
        123..=126 => {
            let (fr, x) = (p.args[0], p.args[1]);
            let bad = fr & 0xfff != 0 || fr >> 52 != 0 || (p.fid == 123 && x & !CR3_ALL != 0) || ((p.fid == 124 || p.fid == 125) && x >= 4096);
            if bad { return (if a.panic { None } else { Some("invalid frame / flags / PCID must be rejected") }, true); }
            if a.panic { return (Some("Cr3 write panicked on valid arguments"), true); }
            let exp = fr | x | if p.fid == 125 { 1 << 63 } else { 0 };
            if a.events.len() != 1 || a.events[0][0] != 7 || a.events[0][1] != 3 || a.events[0][2] != exp as i128 { return (Some("Cr3 write must store frame | low bits (| bit 63 for no-flush) with one MOV to CR3"), true); }
            if p.final_of(&a, 0, 3) != Some(exp) || !p.others_unchanged(&a, 0, &[3]) { return (Some("Cr3 write stored a wrong value or touched another register"), true); }
            (None, x != 0)
        }
        127..=129 => {
            let (nf, x) = (p.args[0], p.args[1]);
            if a.panic { return (None, true); }
            let old = p.prior(0, 3);
            let exp = match p.fid { 127 => nf | ((old & CR3_ALL) ^ (x & CR3_ALL)), 128 => nf | x, _ => nf | x | 1 << 63 };
            if p.final_of(&a, 0, 3) != Some(exp) { return (Some("Cr3 update must equal read-modify-write"), true); }
            (None, true)
        }
        140 | 141 => {
            let n = p.args[0];
            if a.panic { return (Some("DRn access panicked"), true); }
            let op = if p.fid == 140 { 8 } else { 9 };
            if a.events.len() != 1 || a.events[0][0] != op || a.events[0][1] != n as i128 { return (Some("Dr0-3 wrappers must access exactly their own debug register"), true); }
            if p.fid == 140 { if a.result != [p.prior(1, n) as i128] { return (Some("DRn read returned a wrong value"), true); } }
            else if p.final_of(&a, 1, n) != Some(p.args[1]) || !p.others_unchanged(&a, 1, &[n]) { return (Some("DRn write must store the value in DRn only"), true); }
            (None, true)
        }
        150..=153 => {
            let (idx, all) = if p.fid < 152 { (6u64, DR6_ALL) } else { (7, DR7_VALID) };
            let v = p.prior(1, idx);
            if a.panic || a.events.len() != 1 || a.events[0][0] != 8 || a.events[0][1] != idx as i128 { return (Some("Dr6/Dr7 read must read its own register once"), true); }
            let exp = if p.fid % 2 == 0 { v & all } else { v };
            if a.result != [exp as i128] { return (Some("Dr6/Dr7 typed read must return exactly the modelled bits"), true); }
            (None, v & !all != 0)
        }
        154 | 155 => {
            let v = p.args[0];
            let old = p.prior(1, 7);
            if p.fid == 154 && v & !DR7_VALID != 0 { return (if a.panic { None } else { Some("invalid DR7 value must be rejected") }, true); }
            if a.panic { return (Some("Dr7 write panicked"), true); }
            let exp = if p.fid == 154 { (old & !DR7_VALID) | v } else { v };
            if p.final_of(&a, 1, 7) != Some(exp) || !p.others_unchanged(&a, 1, &[7]) { return (Some("Dr7 write must preserve unmodelled bits (typed) / store exactly (raw), in DR7 only"), true); }
            (None, old & !DR7_VALID != 0)
        }
        156 => {
            if a.panic { return (Some("Dr7 update panicked"), true); }
            let (n, cd, sz, t) = (p.args[0], p.args[1], p.args[2], p.args[3] & DR7_FLAGS);
            let old = p.prior(1, 7);
            let mut v = old & DR7_VALID;
            v = (v & !(3 << (16 + 4 * n))) | (cd << (16 + 4 * n));
            v = (v & !(3 << (18 + 4 * n))) | (sz << (18 + 4 * n));
            v ^= t;
            if p.final_of(&a, 1, 7) != Some((old & !DR7_VALID) | v) { return (Some("Dr7 update must equal read-modify-write; condition/size fields are independent of each other and of the flags"), true); }
            (None, true)
        }
        160 | 161 => {
            let v = p.prior(2, 0);
            if a.panic || !a.events.is_empty() { return (Some("XCr0 read must not execute a privileged write"), true); }
            if a.result != [(if p.fid == 160 { v & XCR0_ALL } else { v }) as i128] { return (Some("XCr0 read wrong"), true); }
            (None, v & !XCR0_ALL != 0)
        }
        162 => {
            let f = p.args[0];
            let old = p.prior(2, 0);
            let valid = f & !XCR0_ALL == 0 && f & 1 != 0 && (f & 4 == 0 || f & 2 != 0) && (f & 0x18 == 0 || f & 0x18 == 0x18) && (f & 0xe0 == 0 || (f & 4 != 0 && f & 0xe0 == 0xe0));
            if !valid {
                if !a.panic { return (Some("invalid XCR0 flag combination must be rejected"), true); }
                return (None, true);
            }
            if a.panic { return (Some("valid XCR0 flags rejected"), true); }
            let exp = (old & !XCR0_ALL) | f;
            if a.events.len() != 1 || a.events[0] != [12, 0, exp as i128, 0] || p.final_of(&a, 2, 0) != Some(exp) { return (Some("XCr0 write must execute one XSETBV with ECX=0 storing flags and preserving unmodelled bits"), true); }
            (None, old & !XCR0_ALL != 0)
        }
        163 => {
            if a.panic || a.events.len() != 1 || a.events[0] != [12, 0, p.args[0] as i128, 0] { return (Some("XCr0 raw write must XSETBV exactly the value with ECX=0"), true); }
            (None, true)
        }
        164 => (None, false),
        170 | 171 => {
            let n = p.args[0] & 0xffff_ffff;
            if a.panic { return (Some("Msr access panicked"), true); }
            if a.events.len() != 1 || a.events[0][1] != n as i128 { return (Some("Msr must access exactly MSR n (index in ECX)"), true); }
            if p.fid == 170 { if a.events[0][0] != RD || a.result != [p.prior(3, n) as i128] { return (Some("Msr::read must return EDX:EAX of MSR n"), true); } }
            else if a.events[0][0] != WR || a.events[0][2] != p.args[1] as i128 || p.final_of(&a, 3, n) != Some(p.args[1]) || !p.others_unchanged(&a, 3, &[n]) { return (Some("Msr::write must store the full 64-bit value as EDX:EAX in MSR n only"), true); }
            (None, true)
        }
        190..=197 => {
            let m = [M_FS, M_GS, M_KGS, M_LSTAR][((p.fid - 190) / 2) as usize];
            if p.fid % 2 == 0 {
                let v = p.prior(3, m);
                if !is_canonical(v) { return (if a.panic { None } else { Some("address MSR holding a non-canonical value must not be returned as a VirtAddr") }, true); }
                if a.panic || a.events.len() != 1 || a.events[0][0] != RD || a.events[0][1] != m as i128 || a.result != [v as i128] { return (Some("base/LSTAR read must read its own MSR and return the address"), true); }
                (None, v >> 47 != 0)
            } else {
                let v = p.args[0];
                if !is_canonical(v) { return (if a.panic { None } else { Some("non-canonical address accepted") }, true); }
                if a.panic || a.events.len() != 1 || a.events[0] != [WR, m as i128, v as i128, 0] || !p.others_unchanged(&a, 3, &[m]) { return (Some("base/LSTAR write must store the address in its own MSR only"), true); }
                (None, v >> 47 != 0)
            }
        }
        200 | 201 => {
            let v = p.prior(3, M_STAR);
            let (sr, sc) = (v >> 48, (v >> 32) & 0xffff);
            if p.fid == 200 {
                if a.panic || a.result != [sr as i128, sc as i128] { return (Some("Star::read_raw must return bits 48-63 and 32-47"), true); }
                return (None, true);
            }
            if a.panic { return (None, sr >= 0xfff0); } // characterised: never a wrong value
            let exp = [(sr + 16) & 0xffff, (sr + 8) & 0xffff, sc, (sc + 8) & 0xffff];
            if a.result.len() != 4 || (0..4).any(|i| a.result[i] != exp[i] as i128) { return (Some("Star::read returned wrong selectors"), true); }
            (None, sr >= 0xffe0)
        }
        202 => {
            if a.panic || a.events.len() != 1 || a.events[0] != [WR, M_STAR as i128, ((p.args[0] << 48) | (p.args[1] << 32)) as i128, 0] { return (Some("Star::write_raw must store sysret@48, syscall@32, low 32 bits 0"), true); }
            (None, true)
        }
        203 => {
            let (a1, a2, a3, a4) = (p.args[0] as i64, p.args[1] as i64, p.args[2] as i64, p.args[3] as i64);
            let expect = if a1 - 16 != a2 - 8 { 1 } else if a3 != a4 - 8 { 2 } else if a2 & 3 != 3 { 3 } else if a4 & 3 != 0 { 4 } else { 0 };
            if a.panic { return (if expect == 0 && a2 < 8 { None } else { Some("Star::write panicked") }, true); }
            if a.result != [expect as i128] { return (Some("Star::write must reject exactly the four documented mismatches"), true); }
            if expect != 0 { if !a.events.is_empty() { return (Some("a rejected Star::write must not write"), true); } }
            else if a.events.len() != 1 || a.events[0] != [WR, M_STAR as i128, ((((a2 - 8) as u64 & 0xffff) << 48) | ((a3 as u64) << 32)) as i128, 0] { return (Some("Star::write must store ss_sysret-8 @48 and cs_syscall @32"), true); }
            (None, true)
        }
        210 => {
            let v = p.prior(3, M_SFMASK);
            if v & !RFLAGS_ALL != 0 { return (if a.panic { None } else { Some("SFMask::read must not return a value for unrepresentable contents") }, true); }
            if a.panic || a.result != [v as i128] || a.events[0][1] != M_SFMASK as i128 { return (Some("SFMask::read wrong"), true); }
            (None, true)
        }
        211 => {
            let v = p.args[0];
            if v & !RFLAGS_ALL != 0 { return (if a.panic { None } else { Some("undeclared RFLAGS bits accepted") }, true); }
            if a.panic || a.events.len() != 1 || a.events[0] != [WR, M_SFMASK as i128, v as i128, 0] { return (Some("SFMask::write must store the bits in MSR C000_0084"), true); }
            (None, true)
        }
        212 => (None, false),
        220 | 223 => {
            let m = if p.fid == 220 { M_UCET } else { M_SCET };
            let v = p.prior(3, m);
            if !is_canonical(v & !0xfff) { return (if a.panic { None } else { Some("CET read returned a page for a non-canonical value") }, true); }
            if a.panic || a.events.len() != 1 || a.events[0][1] != m as i128 || a.result != [(v & CET_ALL) as i128, (v & !0xfff) as i128] { return (Some("CET read must return the flag bits and the page (raw & !0xfff) of its own MSR"), true); }
            (None, v & 0xfff & !CET_ALL != 0)
        }
        221 | 224 => {
            let m = if p.fid == 221 { M_UCET } else { M_SCET };
            let (f, pg) = (p.args[0], p.args[1]);
            if f & !CET_ALL != 0 { return (if a.panic { None } else { Some("undeclared CET flags accepted") }, true); }
            if a.panic || a.events.len() != 1 || a.events[0] != [WR, m as i128, (f | pg) as i128, 0] { return (Some("CET write must store flags | page in its own MSR"), true); }
            (None, true)
        }
        222 | 225 => (None, false),
        230 => {
            let v = p.prior(3, M_PAT);
            let bytes: Vec<u64> = (0..8).map(|i| (v >> (8 * i)) & 0xff).collect();
            let valid = bytes.iter().all(|b| [0u64, 1, 4, 5, 6, 7].contains(b));
            if !valid { return (if a.panic { None } else { Some("Pat::read returned a table for an invalid memory type byte") }, true); }
            if a.panic || a.result.len() != 8 || (0..8).any(|i| a.result[i] != bytes[i] as i128) { return (Some("Pat::read must return byte i as entry i"), true); }
            (None, true)
        }
        231 => {
            let valid = p.args.iter().all(|b| [0u64, 1, 4, 5, 6, 7].contains(b));
            if !valid { return (if a.panic { None } else { Some("invalid PAT type accepted") }, true); }
            let mut v = 0u64;
            for i in 0..8 { v |= p.args[i] << (8 * i); }
            if a.panic || a.events.len() != 1 || a.events[0] != [WR, M_PAT as i128, v as i128, 0] { return (Some("Pat::write must store entry i in byte i of MSR 0x277"), true); }
            (None, true)
        }
        240 | 241 => {
            let v = p.prior(3, M_APIC);
            if a.panic || a.events.len() != 1 || a.events[0][1] != M_APIC as i128 { return (Some("ApicBase read must read MSR 0x1B"), true); }
            let second = if p.fid == 240 { v & APIC_ALL } else { v };
            if a.result != [(v & ADDR) as i128, second as i128] { return (Some("ApicBase read must return the frame in bits 12-51 and the flags"), true); }
            (None, v & !(APIC_ALL | ADDR) != 0)
        }
        242 => {
            let (fr, fl) = (p.args[0], p.args[1]);
            let old = p.prior(3, M_APIC);
            if fl & !APIC_ALL != 0 { return (if a.panic { None } else { Some("undeclared APIC flags accepted") }, true); }
            if a.panic { return (Some("ApicBase::write panicked"), true); }
            let exp = (old & !(APIC_ALL | ADDR)) | fl | fr;
            if p.final_of(&a, 3, M_APIC) != Some(exp) { return (Some("ApicBase::write must store the given base and flags (what it accepts must read back) while preserving unmodelled bits"), true); }
            (None, old & ADDR != 0 && old & ADDR != fr)
        }
        243 => (None, false),
        250 => {
            let n = p.args[0];
            if a.panic || a.result != [p.prior(7, n) as i128] { return (Some("segment get_reg must read its own selector register"), true); }
            (None, true)
        }
        260 => {
            let (n, sel) = (p.args[0], p.args[1]);
            if a.panic { return (Some("set_reg panicked"), true); }
            for (i, pr) in p.priors.iter().enumerate() {
                if pr.0 == 7 {
                    let exp = if pr.1 == n { sel } else { pr.2 };
                    if a.finals.get(i).map(|x| *x as u64) != Some(exp) { return (Some("segment set_reg must load exactly its own selector register with the 16-bit selector"), true); }
                }
            }
            (None, true)
        }
        272 | 273 => {
            if a.panic { return (Some("GS base access panicked"), true); }
            if p.fid == 272 && a.result != [p.prior(8, 0) as i128] { return (Some("GS::read_base must return GS.base"), true); }
            if p.fid == 273 && a.result == [0xbad0_f5ba_5e] { return (Some("GS::write_base changed FS.base: it must write GS.base and nothing else"), true); }
            if p.fid == 273 && p.final_of(&a, 8, 0) != Some(p.args[0]) { return (Some("GS::write_base must store GS.base"), true); }
            (None, true)
        }
        274 => {
            if a.panic || a.events.len() != 1 || a.events[0][0] != 20 { return (Some("GS::swap must execute one SWAPGS"), true); }
            if p.final_of(&a, 3, M_GS) != Some(p.prior(3, M_KGS)) || p.final_of(&a, 3, M_KGS) != Some(p.prior(3, M_GS)) || p.final_of(&a, 3, M_FS) != Some(p.prior(3, M_FS)) { return (Some("swapgs must exchange GS base and KernelGsBase"), true); }
            (None, true)
        }
        280 => {
            if a.panic || a.events.len() != 1 || a.events[0] != [15, p.args[0] as i128, 0, 0] { return (Some("load_tss must LTR the selector"), true); }
            (None, true)
        }
        300 => { if a.panic || a.result != [(p.prior(6, 0) & 0xffff) as i128] { return (Some("mxcsr::read wrong"), true); } (None, true) }
        301 => { if a.panic || p.final_of(&a, 6, 0) != Some(p.args[0]) { return (Some("mxcsr::write must store the value"), true); } (None, true) }
        302 => { if a.panic || p.final_of(&a, 6, 0) != Some(p.prior(6, 0) ^ (p.args[0] & 0xffff)) { return (Some("mxcsr::update must equal read-modify-write"), true); } (None, true) }
        _ => (None, false),
    }
}

/// expected IF observations and trap sequence of a nesting tree, from the property text
fn spec_tree(it: &mut core::slice::Iter<u64>, iflag: &mut bool, obs: &mut Vec<i128>, evs: &mut Vec<i128>) {
    match it.next() {
        Some(0) => obs.push(*iflag as i128),
        Some(1) => {
            let k = *it.next().unwrap_or(&0);
            let saved = *iflag;
            if saved { evs.push(1); *iflag = false; }
            for _ in 0..k { spec_tree(it, iflag, obs, evs); }
            if saved { evs.push(2); *iflag = true; }
        }
        Some(2) => {
            // a closure that opens an interrupt window and closes it again: it leaves the flag as it found it
            let k = *it.next().unwrap_or(&0);
            let was = *iflag;
            evs.push(2); *iflag = true;
            for _ in 0..k { spec_tree(it, iflag, obs, evs); }
            if !was { evs.push(1); *iflag = false; }
        }
        _ => {}
    }
}
fn judge_c17(c: &[u64], raw: &[i128]) -> Verdict {
    let p = parse(c);
    let a = match split(raw, 0) { Some(a) => a, None => return (Some("malformed answer"), true) };
    if a.panic { return (Some("interrupt wrapper panicked"), true); }
    let if0 = p.prior(4, 0) != 0;
    let fin = p.final_of(&a, 4, 0).map(|x| x != 0);
    let ops: Vec<i128> = a.events.iter().map(|e| e[0]).collect();
    match p.fid {
        310 => { if a.result != [if0 as i128] || !ops.is_empty() { return (Some("are_enabled must report the flag and change nothing"), true); } (None, true) }
        311 => { if ops != [2] || fin != Some(true) { return (Some("enable must set the flag with one STI and change nothing else"), true); } (None, true) }
        312 => { if ops != [1] || fin != Some(false) { return (Some("disable must clear the flag with one CLI and change nothing else"), true); } (None, true) }
        313 => {
            let (mut obs, mut evs, mut f) = (vec![], vec![], if0);
            spec_tree(&mut p.args.iter(), &mut f, &mut obs, &mut evs);
            let depth = p.args.iter().filter(|x| **x == 1 || **x == 2).count();
            if fin != Some(if0) { return (Some("without_interrupts must leave the flag exactly as it was before the call"), true); }
            if a.result != obs { return (Some("closure must run exactly once per call with the interrupt flag clear"), true); }
            if ops != evs { return (Some("without_interrupts must disable only if enabled and re-enable only if it disabled"), true); }
            (None, depth >= 2)
        }
        314 => {
            if ops != [2, 3] || a.events[1][3] != 1 { return (Some("enable_and_hlt must execute STI and HLT back to back with nothing in between"), true); }
            (None, true)
        }
        315 => { if ops != [3] { return (Some("hlt must execute HLT"), true); } (None, true) }
        _ => (None, false),
    }
}

fn judge_c18(c: &[u64], raw: &[i128]) -> Verdict {
    let p = parse(c);
    if p.fid == 322 {
        let eq = (p.args[2] & 0xffff) == (p.args[3] & 0xffff);
        if raw != [-3, eq as i128, 1, (p.args[2] & 0xffff) as i128, -3] { return (Some("ports compare equal exactly when their numbers are equal; clones refer to the same port"), true); }
        return (None, true);
    }
    let a = match split(raw, 0) { Some(a) => a, None => return (Some("malformed answer"), true) };
    if a.panic { return (Some("port access panicked"), true); }
    let (w, port) = (p.args[0], p.args[1] & 0xffff);
    if a.events.len() != 1 { return (Some("a port access must execute exactly one port instruction"), true); }
    let e = a.events[0];
    let nt = port == 0 || port == 0xffff || port & (port - 1) == 0;
    if p.fid == 320 {
        if e[0] != 4 || e[1] != w as i128 || e[2] != port as i128 { return (Some("read must execute one IN of its width on its port"), true); }
        if a.result != [e[3]] { return (Some("read must return exactly the value the device supplied"), true); }
        (None, nt)
    } else {
        let v = p.args[2] & if w == 32 { 0xffff_ffff } else { (1 << w) - 1 };
        if e[0] != 5 || e[1] != w as i128 || e[2] != port as i128 || e[3] != v as i128 { return (Some("write must execute one OUT of its width on its port with exactly the given value"), true); }
        (None, nt || v == 0 || v + 1 == 1 << w)
    }
}

fn judge_c11(c: &[u64], raw: &[i128]) -> Verdict {
    let p = parse(c);
    let a = match split(raw, if p.fid == 333 { 1 } else { 0 }) { Some(a) => a, None => return (Some("malformed answer"), true) };
    match p.fid {
        330 => { if a.panic || a.events.len() != 1 || a.events[0] != [16, p.args[0] as i128, 0, 0] { return (Some("flush must execute one INVLPG of exactly the given address"), true); } (None, p.args[0] >> 47 != 0) }
        331 => {
            let v = p.prior(0, 3);
            if a.panic || a.events.len() != 2 || a.events[0][..3] != [6, 3, v as i128] || a.events[1][..3] != [7, 3, v as i128] { return (Some("flush_all must reload CR3 with its current value"), true); }
            (None, v & 0xfff & !0x18 != 0 || v >> 63 != 0)
        }
        332 => {
            let (kind, addr, pcid) = (p.args[0], p.args[1], p.args[2]);
            let exp: [i128; 4] = match kind { 0 => [17, 0, pcid as i128, addr as i128], 1 => [17, 1, pcid as i128, 0], 2 => [17, 2, 0, 0], _ => [17, 3, 0, 0] };
            if a.panic || a.events.len() != 1 || a.events[0] != exp { return (Some("flush_pcid must execute one INVPCID with the PCID in the first and the address in the second descriptor quadword and the kind as type"), true); }
            (None, true)
        }
        334 => { if a.panic || a.events.len() != 1 || a.events[0][0] != 19 { return (Some("tlbsync"), true); } (None, true) }
        333 => {
            let g = p.args;
            let (cmax, nest, nas, hasr, s, e, szk, hp, pc, ha, asid, gl, fi, ne) = (g[0], g[1], g[2], g[3], g[4], g[5], g[6], g[7], g[8], g[9], g[10], g[11], g[12], g[13]);
            if ne != 0 && nest == 0 { return (if a.panic { None } else { Some("include_nested_translations must panic when unsupported") }, true); }
            if a.panic { return (Some("broadcast flush panicked"), true); }
            let asid_ok = ha == 0 || asid < nas;
            if a.prefix != [asid_ok as i128] { return (Some("asid must be rejected exactly when it is >= the number of ASIDs"), true); }
            let sz: u64 = if szk == 0 { 4096 } else { 1 << 21 };
            let optbits: i128 = ((hp != 0) as i128) << 1 | ((ha != 0 && asid_ok) as i128) << 2 | ((gl != 0) as i128) << 3 | ((fi != 0) as i128) << 4 | ((ne != 0) as i128) << 5;
            let edx: i128 = (if hp != 0 { (pc as i128) << 16 } else { 0 }) | (if ha != 0 && asid_ok { asid as i128 } else { 0 });
            if a.events.iter().any(|ev| ev[0] != 18) { return (Some("broadcast flush must only execute INVLPGB"), true); }
            if hasr == 0 {
                if a.events.len() != 1 || a.events[0] != [18, optbits, 0, edx] { return (Some("a flush without a range must be one request with the address-valid bit clear"), true); }
                return (None, true);
            }
            // requests must cover [s, e) exactly in order, never exceed min(cmax, 65535) pages per request, never cross the gap
            let mut cur = s;
            let empty = s >= e;
            let mut nreq = 0;
            for ev in &a.events {
                let (rax, ecx, d) = (ev[1] as u64, ev[2] as u64, ev[3]);
                if d != edx { return (Some("request must carry the requested PCID in EDX[27:16] and ASID in EDX[15:0]"), true); }
                if (rax & 0x3f) as i128 != optbits | 1 { return (Some("request must carry the requested option bits in RAX[5:0] with the address-valid bit"), true); }
                if (ecx >> 31) & 1 != szk { return (Some("ECX[31] must select 2 MiB pages exactly for 2 MiB ranges"), true); }
                if ecx & 0x7fff_0000 != 0 { return (Some("ECX reserved bits set"), true); }
                let count = ecx & 0xffff;
                if count > cmax.min(65535) { return (Some("a request exceeds the processor's per-request maximum"), true); }
                if rax & !0xfff != cur { return (Some("requests must continue exactly where the previous one ended (RAX[63:12] = start page)"), true); }
                let pages = count.max(1);
                // the extent (start, pages) must not contain non-canonical addresses nor pages of both halves
                let last = cur.wrapping_add((pages - 1).wrapping_mul(sz));
                if !is_canonical(last) || (cur < (1 << 47)) != (last < (1 << 47)) || last < cur { return (Some("a request extends across the non-canonical gap"), true); }
                // advance, jumping the gap
                let next = last.wrapping_add(sz);
                cur = if next == 1 << 47 { 0xffff_8000_0000_0000 } else { next };
                nreq += 1;
                if cur == e { break; }
                if last >= e && e > s { return (Some("requests overshoot the end of the range"), true); }
            }
            if empty { if !a.events.is_empty() { return (Some("an empty range must not flush"), true); } }
            else if cur != e || nreq != a.events.len() { return (Some("the requests together must cover every page of the range, exactly"), true); }
            (None, nreq > 1 || e >= 0u64.wrapping_sub(2 * sz) || (s < (1 << 47) && e >= (1 << 47) - 2 * sz))
        }
        _ => (None, false),
    }
}

fn parse_ans(s: &str) -> Vec<i128> {
    s.split_ascii_whitespace()
        .map(|t| if let Some(r) = t.strip_prefix('-') { -(i128::from_str_radix(r, 16).unwrap()) } else { i128::from_str_radix(t, 16).unwrap() })
        .collect()
}

pub fn oracle(prop: &str) {
    use std::collections::HashSet;
    use std::io::BufRead;
    let args: Vec<String> = std::env::args().collect();
    let cases = std::io::BufReader::new(std::fs::File::open(&args[3]).unwrap());
    let answers = std::io::BufReader::new(std::fs::File::open(&args[4]).unwrap());
    let (mut evals, mut fails, mut panics) = (0u64, 0u64, 0u64);
    let mut distinct: HashSet<u64> = HashSet::new();
    let mut hist: std::collections::BTreeMap<u64, u64> = Default::default();
    for (ln, (cl, al)) in cases.lines().zip(answers.lines()).enumerate() {
        let (cl, al) = (cl.unwrap(), al.unwrap());
        let c = parse_line(&cl);
        let a = parse_ans(&al);
        evals += 1;
        *hist.entry(c[0]).or_default() += 1;
        if a == [-1] { panics += 1; }
        let (f, nt) = match prop { "C16" => judge_c16(&c, &a), "C17" => judge_c17(&c, &a), "C18" => judge_c18(&c, &a), _ => judge_c11(&c, &a) };
        if nt {
            use std::hash::{Hash, Hasher};
            let mut h = std::collections::hash_map::DefaultHasher::new();
            c.hash(&mut h);
            distinct.insert(h.finish());
        }
        if let Some(clause) = f {
            fails += 1;
            if fails <= 50 { println!("FAIL {} | {} | {} | {}", ln + 1, cl, &al[..al.len().min(2000)], clause); }
        }
    }
    let h: Vec<String> = hist.iter().map(|(k, v)| format!("\"fn{}\":{}", k, v)).collect();
    println!("SUMMARY {{\"evaluations\":{},\"oracle_failures\":{},\"distinct_nontrivial\":{},\"answers_with_panic\":{},\"by_function\":{{{}}}}}", evals, fails, distinct.len(), panics, h.join(","));
}
