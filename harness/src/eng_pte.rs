//! Page-table-entry / page-table engine. Mirrors coq/theories/Paging/EntryRun.v (`run_pte`).
use crate::util::*;
use x86_64::structures::paging::page_table::{PageTable, PageTableEntry, PageTableFlags};
use x86_64::structures::paging::{PageTableIndex, PhysFrame, Size4KiB};
use x86_64::PhysAddr;

fn raw(e: &PageTableEntry) -> u64 {
    // the entry is repr(transparent) over u64: read it back as raw memory
    unsafe { core::ptr::read(e as *const PageTableEntry as *const u64) }
}
fn entry_of(e: u64) -> PageTableEntry {
    unsafe { core::mem::transmute::<u64, PageTableEntry>(e) }
}
fn observe(e: &PageTableEntry) -> Vec<i128> {
    let mut v = vec![raw(e) as i128, e.is_unused() as i128, e.flags().bits() as i128];
    v.extend(r(catch(|| e.addr().as_u64())));
    v.extend(ro(catch(|| e.frame().ok().map(|f| f.start_address().as_u64()))));
    v
}

fn run_inner(c: &[u64]) -> Vec<i128> {
    match c {
        [1, e] => observe(&entry_of(*e)),
        [2, e, prog @ ..] => {
            let mut ent = entry_of(*e);
            let mut v = observe(&ent);
            for ch in prog.chunks(3) {
                if ch.len() < 3 {
                    break;
                }
                let (op, a, b) = (ch[0], ch[1], ch[2]);
                let mut e2 = ent.clone();
                let res = catch(move || {
                    let flags = PageTableFlags::from_bits(b).unwrap();
                    match op {
                        0 => e2.set_addr(PhysAddr::new(a), flags),
                        1 => e2.set_frame(PhysFrame::<Size4KiB>::from_start_address(PhysAddr::new(a)).unwrap(), flags),
                        2 => e2.set_flags(flags),
                        _ => e2.set_unused(),
                    }
                    e2
                });
                match res {
                    Some(e3) => {
                        ent = e3;
                        v.extend(observe(&ent));
                    }
                    None => {
                        v.push(PANIC);
                        break;
                    }
                }
            }
            v
        }
        [3, writes @ ..] => {
            let mut t = Box::new(PageTable::new());
            for ch in writes.chunks(3) {
                if ch.len() < 3 {
                    break;
                }
                let (path, i, val) = (ch[0], ch[1], ch[2]);
                let ent = entry_of(val);
                match path {
                    0 => t[i as usize] = ent,
                    1 => t[PageTableIndex::new(i as u16)] = ent,
                    _ => {
                        assert!(i < 512);
                        *t.iter_mut().nth(i as usize).unwrap() = ent
                    }
                }
            }
            let bytes: &[u8; 4096] = unsafe { &*(&*t as *const PageTable as *const [u8; 4096]) };
            let mut v = vec![];
            let mut consistent = true;
            for i in 0..512usize {
                let mut w = [0u8; 8];
                w.copy_from_slice(&bytes[8 * i..8 * i + 8]);
                let word = u64::from_le_bytes(w);
                v.push(word as i128);
                consistent &= raw(&t[i]) == word
                    && raw(&t[PageTableIndex::new(i as u16)]) == word
                    && raw(t.iter().nth(i).unwrap()) == word;
            }
            consistent &= t.iter().count() == 512 && t.iter_mut().count() == 512;
            v.push(t.is_empty() as i128);
            t.zero();
            v.push(t.is_empty() as i128);
            let bytes: &[u8; 4096] = unsafe { &*(&*t as *const PageTable as *const [u8; 4096]) };
            v.push(bytes.chunks(8).filter(|c| c.iter().any(|b| *b != 0)).count() as i128);
            if !consistent {
                v.push(-77);
            }
            v
        }
        [4] => {
            let t = Box::new(PageTable::new());
            let bytes: &[u8; 4096] = unsafe { &*(&*t as *const PageTable as *const [u8; 4096]) };
            let aligned = (&*t as *const PageTable as usize) % 4096 == 0;
            vec![
                (t.is_empty() && PageTable::default().is_empty() && PageTableEntry::new().is_unused()) as i128,
                bytes.len() as i128,
                bytes.iter().filter(|b| **b != 0).count() as i128,
                core::mem::size_of::<PageTable>() as i128,
                if aligned { core::mem::align_of::<PageTable>() as i128 } else { -77 },
                core::mem::size_of::<PageTableEntry>() as i128,
                core::mem::align_of::<PageTableEntry>() as i128,
            ]
        }
        [5, w] => {
            let e = entry_of(*w);
            let b: [u8; 8] = unsafe { core::ptr::read(&e as *const PageTableEntry as *const [u8; 8]) };
            b.iter().map(|x| *x as i128).collect()
        }
        _ => vec![-99],
    }
}

pub fn run(c: &[u64]) -> Vec<i128> {
    catch(|| run_inner(c)).unwrap_or_else(|| vec![PANIC])
}
