//! Shared helpers: the integer-list line format, a splitmix64 PRNG, panic capture.
use std::io::{BufRead, Write};
use std::panic::{catch_unwind, AssertUnwindSafe};

pub const PANIC: i128 = -1;
pub const NONE: i128 = -2;

pub fn parse_line(line: &str) -> Vec<u64> {
    line.split_ascii_whitespace()
        .map(|t| u64::from_str_radix(t, 16).unwrap_or_else(|_| panic!("bad token {t}")))
        .collect()
}

pub fn fmt_out(v: &[i128]) -> String {
    let mut s = String::new();
    for (i, x) in v.iter().enumerate() {
        if i > 0 {
            s.push(' ');
        }
        if *x < 0 {
            s.push_str(&format!("-{:x}", -*x));
        } else {
            s.push_str(&format!("{:x}", *x));
        }
    }
    s
}

pub fn fmt_case(v: &[u64]) -> String {
    let mut s = String::new();
    for (i, x) in v.iter().enumerate() {
        if i > 0 {
            s.push(' ');
        }
        s.push_str(&format!("{:x}", *x));
    }
    s
}

/// Run `f`, mapping a panic to `None` (the panic message is never compared).
pub fn catch<T>(f: impl FnOnce() -> T) -> Option<T> {
    catch_unwind(AssertUnwindSafe(f)).ok()
}

pub fn silence_panics() {
    std::panic::set_hook(Box::new(|_| {}));
}

pub fn r(x: Option<u64>) -> Vec<i128> {
    match x {
        Some(v) => vec![v as i128],
        None => vec![PANIC],
    }
}
pub fn o(x: Option<u64>) -> Vec<i128> {
    match x {
        Some(v) => vec![v as i128],
        None => vec![NONE],
    }
}
/// res (option Z)
pub fn ro(x: Option<Option<u64>>) -> Vec<i128> {
    match x {
        Some(v) => o(v),
        None => vec![PANIC],
    }
}

#[derive(Clone)]
pub struct Rng(pub u64);
impl Rng {
    pub fn new(seed: u64) -> Self {
        Rng(seed ^ 0x9e37_79b9_7f4a_7c15)
    }
    pub fn next(&mut self) -> u64 {
        self.0 = self.0.wrapping_add(0x9e37_79b9_7f4a_7c15);
        let mut z = self.0;
        z = (z ^ (z >> 30)).wrapping_mul(0xbf58_476d_1ce4_e5b9);
        z = (z ^ (z >> 27)).wrapping_mul(0x94d0_49bb_1331_11eb);
        z ^ (z >> 31)
    }
    pub fn below(&mut self, n: u64) -> u64 {
        if n == 0 {
            0
        } else {
            self.next() % n
        }
    }
    pub fn pick<T: Copy>(&mut self, v: &[T]) -> T {
        v[self.below(v.len() as u64) as usize]
    }
    pub fn chance(&mut self, num: u64, den: u64) -> bool {
        self.below(den) < num
    }
    /// random value of random bit length (structured: uniform over bit lengths)
    pub fn bits(&mut self) -> u64 {
        let n = self.below(65);
        if n == 0 {
            0
        } else if n == 64 {
            self.next()
        } else {
            (self.next() & ((1u64 << n) - 1)) | (1u64 << (n - 1))
        }
    }
}

pub fn for_each_line(mut f: impl FnMut(&str) -> String) {
    let stdin = std::io::stdin();
    let stdout = std::io::stdout();
    let mut out = std::io::BufWriter::with_capacity(1 << 16, stdout.lock());
    for line in stdin.lock().lines() {
        let line = line.unwrap();
        let s = f(&line);
        out.write_all(s.as_bytes()).unwrap();
        out.write_all(b"\n").unwrap();
    }
    out.flush().unwrap();
}
