//! History generator and oracles for the mapper properties C01, C02, C09, C10 (and the token
//! half of C11).  The oracle keeps the *history-dictated* map (a last-writer interpretation of
//! the successful calls) and compares it with what the independent walker, translate,
//! translate_addr and translate_page report; it never looks at the Coq model.
use crate::util::*;
use std::collections::{BTreeMap, HashSet};
use std::io::Write;

const SZ: [u64; 3] = [4096, 1 << 21, 1 << 30];
const P: u64 = 1;
const HUGE: u64 = 0x80;
const PHYS_LIMIT: u64 = 1 << 40;

fn emit(out: &mut impl Write, c: &[u64]) {
    writeln!(out, "{}", fmt_case(c)).unwrap();
}

struct Gen<'a> {
    rng: &'a mut Rng,
    regions: Vec<u64>,                                // 1 GiB-aligned virtual bases
    mapped: BTreeMap<(u64, u64), (u64, u64)>,         // (k, page) -> (frame, flags): what the generator believes
    data_frames: Vec<u64>,
    rec: Option<u64>,
    zero_data: bool,                                  // physical address 0 may be mapped as a data frame in this history
}
impl Gen<'_> {
    fn page(&mut self, k: u64) -> u64 {
        let mut r = self.rng.pick(&self.regions.clone());
        if let Some(ri) = self.rec {
            // the recursive index as a level-3 / level-2 / level-1 index of an ordinary page
            if self.rng.chance(1, 5) {
                match (self.rng.below(3), k) {
                    (0, _) => r = (r & !(0x1ffu64 << 30)) | (ri << 30),
                    (1, 0) | (1, 1) => return r + (ri << 21),
                    (_, 0) => return r + (self.rng.below(4) << 21) + (ri << 12),
                    _ => {}
                }
            }
        }
        let off = match k {
            0 => (self.rng.below(4) << 21) + (self.rng.pick(&[0u64, 1, 2, 255, 510, 511]) << 12),
            1 => self.rng.pick(&[0u64, 1, 2, 3, 511]) << 21,
            _ => 0,
        };
        r + off
    }
    fn any_page(&mut self, k: u64) -> u64 {
        if self.rng.chance(2, 3) && !self.mapped.is_empty() {
            // a page related to something mapped: the same, its container, or a page inside it
            let keys: Vec<(u64, u64)> = self.mapped.keys().copied().collect();
            let (mk, mp) = self.rng.pick(&keys);
            let base = mp & !(SZ[k as usize] - 1);
            if mk > k && self.rng.chance(1, 2) { mp + (self.rng.below(SZ[mk as usize] / SZ[k as usize]) * SZ[k as usize]) } else { base }
        } else {
            self.page(k)
        }
    }
    fn frame(&mut self, k: u64) -> u64 {
        if self.zero_data && self.rng.chance(1, 6) { return 0; }
        let f = match self.rng.below(8) {
            0 => 0x000f_ffff_c000_0000,
            1 => (self.rng.next() & 0x000f_ffff_ffff_e000) & !(SZ[k as usize] - 1),
            2 if k == 0 => 0x3000_1000, // bit 12 set: known finding F7a
            _ => {
                let base = 0x4000_0000u64 + (self.rng.below(6) << 30);
                base + if k == 0 { (self.rng.below(64) << 13) } else if k == 1 { self.rng.below(8) << 21 } else { 0 }
            }
        };
        let f = f & !(SZ[k as usize] - 1);
        if f < PHYS_LIMIT && !self.data_frames.contains(&f) && self.data_frames.len() < 12 {
            self.data_frames.push(f);
        }
        f
    }
    fn flags(&mut self, k: u64) -> u64 {
        let extra = [2u64, 4, 8, 0x10, 0x20, 0x40, 0x100, 0x200, 0x400, 0x800, 1 << 52, 1 << 58, 1 << 62, 1 << 63];
        let mut f = P;
        if self.rng.chance(2, 5) { f |= 6; }   // writable and user-accessible often enough for parent rights to matter
        for _ in 0..self.rng.below(4) {
            f |= self.rng.pick(&extra);
        }
        if k == 0 && self.rng.chance(1, 12) {
            f |= 0x80; // PAT_4KIB_PAGE: on a 4 KiB leaf bit 7 is a memory-type bit, not "huge page"
        }
        if k > 0 && self.rng.chance(1, 60) {
            f |= 0x1000; // PAT_HUGE_PAGE on a huge page: known finding F7b
        }
        f
    }
    fn pflags(&mut self) -> u64 {
        P | (self.rng.pick(&[0u64, 2, 4, 6, 6, 2])) | if self.rng.chance(1, 10) { 1 << 63 } else { 0 }
    }
}

fn upper(a: u64) -> u64 {
    0xffff_0000_0000_0000 | a
}

pub fn gen(prop: &str, seed: u64, thorough: bool, out: &mut impl Write) {
    let mut rng = Rng::new(seed ^ u64::from_str_radix(&prop[1..], 10).unwrap() * 0x2718281);
    // "C20": histories on the recursive mapper only (the behavioural half of C20: which addresses it dereferences)
    let nhist = match (prop, thorough) { ("C20", true) => 1_500, ("C20", false) => 240, (_, true) => 3_600, ("C10", false) => 450, (_, false) => 420 };
    let maxops: u64 = if thorough { 80 } else { 40 };
    for h in 0..nhist {
        let kind = if prop == "C20" { 1 } else { [0u64, 2, 1][h % 3] };
        let r = if kind == 1 { 1 + rng.below(150) } else { 0 };
        let root = 0x10_0000u64;
        // virtual regions: both halves, first/last GiB of each half, plus random ones
        let pool: [u64; 8] = [0, 0x40_0000_0000, 0x7fff_c000_0000, upper(0x8000_0000_0000), upper(0xffff_c000_0000), 0x0000_1234_4000_0000, upper(0xa000_8000_0000), 0x80_0000_0000];
        let mut regions = vec![];
        for _ in 0..(2 + rng.below(2)) {
            let b = rng.pick(&pool);
            if kind == 1 && (b >> 39) & 0x1ff == r { continue; }
            if !regions.contains(&b) { regions.push(b); }
        }
        if regions.is_empty() { regions.push(0x40_0000_0000); }
        // allocator: fresh frames, some huge-page aligned, with a failure schedule
        let nal = 4 + rng.below(24);
        let mut allocs: Vec<u64> = vec![];
        let fail_mode = if prop == "C02" { rng.below(3) } else { rng.below(8) };
        // physical frame 0 is a frame like any other: in some histories the allocator hands it out as
        // a page table, in others it is mapped as a (huge) data frame
        let zero_role = rng.below(8);
        let zero_at = rng.below(3);
        for i in 0..nal {
            let f = if zero_role == 0 && i == zero_at { 0 } else { match rng.below(6) { 0 => 0x20_0000 + (i << 21), 1 => 0x4000_0000u64 * 8 + (i << 30), _ => 0x20_0000 + 0x1000 * (1 + 2 * i) + (rng.below(4) << 24) } };
            let fail = match fail_mode { 0 => i > 0 && rng.chance(1, 4), 1 => i >= nal / 2, _ => false };
            allocs.push(if fail { u64::MAX } else { f });
        }
        let mut uniq = HashSet::new();
        for f in allocs.iter_mut() { if *f != u64::MAX && !uniq.insert(*f) { *f = u64::MAX; } }
        let mut g = Gen { rng: &mut rng, regions, mapped: BTreeMap::new(), data_frames: vec![], rec: if kind == 1 { Some(r) } else { None }, zero_data: zero_role == 1 };
        let _ = g.rec;
        let mut ops: Vec<u64> = vec![13];
        let nops = 3 + g.rng.below(maxops);
        let w_clean = if prop == "C10" { 18 } else { 5 };
        for _ in 0..nops {
            let k = g.rng.pick(&[0u64, 0, 0, 1, 1, 2]);
            let roll = g.rng.below(100);
            if roll < 34 {
                let (page, frame, flags) = (g.any_page(k), g.frame(k), g.flags(k));
                if g.rng.chance(1, 4) { ops.extend([2, k, page, frame, flags, g.pflags()]); } else { ops.extend([1, k, page, frame, flags]); }
                g.mapped.entry((k, page)).or_insert((frame, flags));
            } else if roll < 37 {
                let frame = if g.rng.chance(1, 2) { 0x4000_0000u64 + (g.rng.below(4) << 30) + if k == 0 { g.rng.below(8) << 13 } else { 0 } } else { g.frame(k) } & !(SZ[k as usize] - 1);
                if frame < (1 << 47) && !(kind == 1 && (frame >> 39) & 0x1ff == r) { let fl = g.flags(k); ops.extend([3, k, frame, fl]); g.mapped.entry((k, frame)).or_insert((frame, fl)); }
            } else if roll < 50 {
                let page = g.any_page(k);
                ops.extend([4, k, page]);
                g.mapped.remove(&(k, page));
            } else if roll < 58 {
                let page = g.any_page(k); let fl = g.flags(k);
                ops.extend([5, k, page, fl]);
            } else if roll < 63 {
                let page = g.any_page(k); let fl = g.pflags();
                ops.extend([6, k, g.rng.pick(&[4u64, 3, 2]), page, fl]);
                // look at the rights of the page right away (and of a neighbour under another entry)
                ops.extend([12, page]);
                ops.extend([12, page ^ (1 << 21)]);
                // ... and of everything mapped so far: rights are AND-ed along the walk, so a flag put into
                // the wrong parent entry shows only at addresses that share that entry but not the right one
                let keys: Vec<(u64, u64)> = g.mapped.keys().copied().collect();
                for (_, p) in keys.iter().take(10) { ops.extend([12, *p]); }
            } else if roll < 70 {
                let page = g.any_page(k);
                ops.extend([7, k, page]);
            } else if roll < 70 + w_clean {
                if g.rng.chance(1, 2) { ops.push(10); } else {
                    // ranges aimed at table boundaries of each level, the gap, the ends, empty, single page
                    let a = g.any_page(0);
                    let span = g.rng.pick(&[0u64, 1, 511, 512, 513, 512 * 512 - 1, 512 * 512, 512 * 512 * 3 + 7]) * 4096;
                    let (rs, re) = match g.rng.below(6) {
                        0 => (a, a),
                        1 => (a, a.wrapping_sub(4096) & !0xfff), // empty (inverted)
                        2 => (0, 0xffff_ffff_ffff_f000),
                        3 => (a & !0x3fff_ffff, (a & !0x3fff_ffff) + 0x3fff_f000),
                        4 => (0x7fff_c000_0000, upper(0x8000_0020_0000)), // spans the gap
                        _ => (a, a.saturating_add(span)),
                    };
                    let canon = |x: u64| if x & (1 << 47) != 0 { x | 0xffff_0000_0000_0000 } else { x & 0x0000_ffff_ffff_ffff };
                    ops.extend([11, canon(rs) & !0xfff, canon(re) & !0xfff]);
                }
                if g.rng.chance(1, 2) { ops.push(10); }
                ops.push(14);
            } else if roll < 90 {
                // probes around everything touched
                let page = g.any_page(k);
                let va = match g.rng.below(5) { 0 => page, 1 => page + (SZ[k as usize] - 1), 2 => page.wrapping_sub(1), 3 => page.wrapping_add(SZ[k as usize]), _ => page + g.rng.below(SZ[k as usize]) };
                let va = if va & (1 << 47) != 0 { va | 0xffff_0000_0000_0000 } else { va & 0x0000_ffff_ffff_ffff };
                // addresses under the recursive slot translate to the tables themselves: outside the history-dictated map
                let va = if kind == 1 && (va >> 39) & 0x1ff == r { page } else { va };
                ops.extend([12, va]);
                ops.extend([8, va]);
                ops.extend([9, va]);
            } else if g.rng.chance(1, 4) {
                ops.push(13);
            }
        }
        // final sweep: probe every page the generator believes mapped, then dump
        let keys: Vec<(u64, u64)> = g.mapped.keys().copied().collect();
        for (k, p) in keys.iter().take(12) {
            ops.extend([12, *p]);
            ops.extend([8, p + (SZ[*k as usize] - 1)]);
            ops.extend([7, *k, *p]);
        }
        ops.push(13);
        ops.push(14);
        let mut frames: Vec<u64> = vec![root];
        for f in &allocs { if *f != u64::MAX && !frames.contains(f) { frames.push(*f); } }
        let ntab = frames.len();
        for f in &g.data_frames { if !frames.contains(f) { frames.push(*f); } }
        let mut c = vec![kind, r, root, allocs.len() as u64];
        c.extend(allocs.iter().copied());
        c.push(frames.len() as u64);
        c.extend(frames.iter().copied());
        let _ = ntab;
        c.extend(ops);
        emit(out, &c);
    }
}

// ------------------------------------------------------------------------------------------
struct Hist<'a> {
    kind: u64,
    root: u64,
    allocs: Vec<u64>,
    frames: Vec<u64>,
    ops: Vec<&'a [u64]>,
}
fn arity(opc: u64) -> usize {
    match opc { 1 => 4, 2 => 5, 3 => 3, 4 => 2, 5 => 3, 6 => 4, 7 => 2, 8 | 9 | 12 => 1, 11 => 2, _ => 0 }
}
fn parse(c: &[u64]) -> Option<Hist<'_>> {
    let na = *c.get(3)? as usize;
    let nd = *c.get(4 + na)? as usize;
    let mut ops = vec![];
    let mut i = 5 + na + nd;
    while i < c.len() {
        let n = arity(c[i]);
        if i + 1 + n > c.len() { break; }
        ops.push(&c[i..i + 1 + n]);
        i += 1 + n;
    }
    Some(Hist { kind: c[0], root: c[2], allocs: c[4..4 + na].to_vec(), frames: c[5 + na..5 + na + nd].to_vec(), ops })
}

/// which mapping (k, page, frame, flags) the history dictates for va
fn dictated(m: &BTreeMap<(u64, u64), (u64, u64)>, va: u64) -> Option<(u64, u64, u64, u64)> {
    for k in 0..3u64 {
        let page = va & !(SZ[k as usize] - 1);
        if let Some((f, fl)) = m.get(&(k, page)) {
            return Some((k, page, *f, *fl));
        }
    }
    None
}
fn overlaps(m: &BTreeMap<(u64, u64), (u64, u64)>, k: u64, page: u64) -> bool {
    // an existing mapping that contains the page, or that the page contains
    if dictated(m, page).is_some() { return true; }
    m.keys().any(|(mk, mp)| *mk < k && mp & !(SZ[k as usize] - 1) == page)
}

type V = (Option<(&'static str, &'static str)>, Option<&'static str>, bool); // (property, clause), known id, nontrivial

pub fn judge(c: &[u64], a: &[i128]) -> (Vec<(&'static str, &'static str)>, Vec<&'static str>, bool) {
    let mut fails: Vec<(&'static str, &'static str)> = vec![];
    let mut known: Vec<&'static str> = vec![];
    let h = match parse(c) { Some(h) => h, None => return (vec![("C01", "malformed case")], vec![], false) };
    let answers: Vec<&[i128]> = a.split(|x| *x == -3).collect();
    let mut m: BTreeMap<(u64, u64), (u64, u64)> = BTreeMap::new();
    let mut sizes_mapped: HashSet<u64> = HashSet::new();
    let mut had_failure = false;
    let mut first_dump: Option<Vec<i128>> = None;
    let table_frames: HashSet<u64> = h.allocs.iter().copied().filter(|f| *f != u64::MAX).collect();
    let mut prev_calls = 0i128;
    let mut prev_freed = 0i128;
    let mut last_cleanup_freed_none = false;
    let mut nontrivial_c09 = false;
    // independent bookkeeping of which page tables exist: (level 3|2|1, base of the region the table covers) -> frame
    let mut tables: BTreeMap<(u64, u64), u64> = BTreeMap::new();
    // flags of the parent entry that points to each table (as the calls dictate: requested at creation, widened by later maps, replaced by set_flags_p*_entry)
    let mut pflags_of: BTreeMap<(u64, u64), u64> = BTreeMap::new();
    let mut expected_freed: Vec<u64> = vec![];
    let mut probes_follow_cleanup = false;
    let mut failed_regions: HashSet<u64> = HashSet::new();
    // (k, page) -> parent W/U rights requested by the map call that created the mapping (dropped when a parent-flag call succeeds)
    let mut granted: BTreeMap<(u64, u64), u64> = BTreeMap::new();
    const SPAN: [u64; 4] = [0, 1 << 21, 1 << 30, 1 << 39];
    macro_rules! fail { ($p:expr, $c:expr) => { if !fails.iter().any(|f| f.1 == $c) { fails.push(($p, $c)); } }; }
    for (i, op) in h.ops.iter().enumerate() {
        let Some(ans) = answers.get(i) else { break };
        let nf_before = fails.len();
        if ans.len() == 1 && ans[0] == -1 {
            fail!("C01", "a mapper call panicked");
            fail!("C02", "a mapper call panicked instead of reporting a documented outcome");
            fail!("C09", "a mapper call panicked where it should only touch page-table memory");
            if matches!(op[0], 10 | 11) { fail!("C10", "clean_up panicked"); }
            break;
        }
        if ans.len() < 2 { break; }
        let (res, calls, freed) = (&ans[..ans.len() - 2], ans[ans.len() - 2], ans[ans.len() - 1]);
        if res.first() == Some(&-20) { fail!("C09", "a recursive-mapper access did not resolve to a page table of the hierarchy (page fault)"); break; }
        if res.first() == Some(&-23) { fail!("C11", "flushing the token returned by a successful call did not execute exactly one INVLPG of the page's start address (resp., for a parent-flag call, exactly a reload of CR3 with its current value)"); break; }
        if res.first() == Some(&-22) { fail!("C20", "the recursive mapper dereferenced a virtual address that is not the recursive address (index repeated 3/2/1 times, then the page's upper indices, sign-extended) of one of the page's tables"); break; }
        if res.first() == Some(&-21) { fail!("C10", "a page table was handed to the deallocator while an entry of the hierarchy still pointed to it (released before it was unlinked from its parent)"); break; }
        let ok = res.first() == Some(&0);
        let d_calls = calls - prev_calls;
        let d_freed = freed - prev_freed;
        prev_calls = calls; prev_freed = freed;
        if matches!(op[0], 1 | 2 | 3) {
            let (k, page) = (op[1], op[2]);
            let start = (calls - d_calls) as usize;
            let mut used = 0usize;
            let missing = (k + 1..=3).filter(|level| !tables.contains_key(&(*level, page & !(SPAN[*level as usize] - 1) & 0x0000_ffff_ffff_ffff))).count() as i128;
            if d_calls > missing { fail!("C09", "a frame was requested although the page table it would become already exists"); }
            if ok && d_calls != missing { fail!("C09", "a successful mapping must request exactly one frame per missing table"); }
            let pf = if op[0] == 2 { op[5] } else { (if op[0] == 3 { op[3] } else { op[4] }) & 7 };
            for level in (k + 1..=3).rev() {
                let base = page & !(SPAN[level as usize] - 1) & 0x0000_ffff_ffff_ffff;
                if tables.contains_key(&(level, base)) {
                    let e = pflags_of.entry((level, base)).or_insert(0);
                    if pf != 0 && *e & pf != pf { *e |= pf; }
                    continue;
                }
                // a huge mapping in the slot: the walk stops here (ParentEntryHugePage), nothing below exists
                if m.keys().any(|(mk, mp)| *mk == level && (mp & 0x0000_ffff_ffff_ffff) == base) { break; }
                if used >= d_calls as usize { break; }
                let f = h.allocs.get(start + used).copied().unwrap_or(u64::MAX);
                used += 1;
                if f >= (1 << 63) { break; }
                tables.insert((level, base), f);
                pflags_of.insert((level, base), if h.kind == 1 { 3 | pf } else { pf });
            }
            probes_follow_cleanup = false;
        } else if matches!(op[0], 4 | 5 | 6) { probes_follow_cleanup = false; }
        // C09: who may allocate / free
        match op[0] {
            1 | 2 | 3 => {
                let k = op[1];
                if d_calls > [3, 2, 1][k as usize] { fail!("C09", "a mapping requested more frames than its page size needs (1/2/3 for 1GiB/2MiB/4KiB)"); }
                if d_freed != 0 { fail!("C09", "a map call released a frame"); }
                if d_calls > 0 { nontrivial_c09 = true; }
            }
            10 | 11 => { if d_calls != 0 { fail!("C09", "clean_up requested a frame"); } }
            12 | 13 | 14 => {}
            _ => { if d_calls != 0 || d_freed != 0 { fail!("C09", "an operation other than map/clean_up requested or released frames"); } }
        }
        match op[0] {
            1 | 2 | 3 => {
                let (k, page, frame, flags) = if op[0] == 3 { (op[1], op[2], op[2], op[3]) } else { (op[1], op[2], op[3], op[4]) };
                let f7b = k > 0 && flags & 0x1000 != 0;
                if ok {
                    if res.len() != 2 || res[1] != page as i128 { fail!("C11", "a successful map must return the flush token of exactly the page it mapped"); }
                    if overlaps(&m, k, page) { fail!("C02", "map reported success although the page (or a page containing it / inside it) is already mapped"); }
                    m.insert((k, page), (frame, if k > 0 { flags | HUGE } else { flags }));
                    let pf = if op[0] == 2 { op[5] } else { flags & 7 };
                    granted.insert((k, page), pf & 6);
                    sizes_mapped.insert(k);
                    let _ = f7b;
                } else {
                    had_failure = true;
                    match res[0] {
                        -12 => {
                            if res.get(1) != Some(&(frame as i128)) { fail!("C02", "PageAlreadyMapped must carry the frame argument"); }
                            if !overlaps(&m, k, page) && d_calls == 0 && !m.keys().any(|(mk, mp)| *mk < k && mp & !(SZ[k as usize] - 1) == page) {
                                // slot occupied without any mapping: only legitimate when the slot of a huge size holds a table (observation O3)
                                if k == 0 { fail!("C02", "PageAlreadyMapped reported for a page that is not mapped"); }
                            }
                        }
                        -11 => { if !m.keys().any(|(mk, mp)| *mk > k && page & !(SZ[*mk as usize] - 1) == *mp) { fail!("C02", "ParentEntryHugePage reported although no larger huge page contains the page"); } }
                        -10 => { if d_calls == 0 { fail!("C02", "FrameAllocationFailed without an allocator call"); } }
                        _ => fail!("C02", "unknown map error"),
                    }
                    if dictated(&m, page).is_none() && !overlaps(&m, k, page) && res[0] != -10 && res[0] != -12 { fail!("C02", "map of an unmapped page failed for a reason the state does not explain"); }
                }
            }
            4 => {
                let (k, page) = (op[1], op[2]);
                match m.get(&(k, page)).copied() {
                    Some((f, fl)) => {
                        if ok {
                            if res.len() != 3 || res[1] != f as i128 { fail!("C01", "unmap must return the frame given to the earlier map"); }
                            if res.get(2) != Some(&(page as i128)) { fail!("C11", "a successful unmap must return the flush token of exactly the page it unmapped"); }
                            m.remove(&(k, page));
                            granted.remove(&(k, page));
                        } else if k > 0 && fl & 0x1000 != 0 && res[0] == -14 { known.push("F7b"); }
                        else { fail!("C02", "unmap of a mapped page of that size failed"); }
                    }
                    None => {
                        if ok { fail!("C02", "unmap reported success for a page that is not mapped with that size"); }
                        else {
                            had_failure = true;
                            let inside = m.keys().any(|(mk, mp)| *mk > k && page & !(SZ[*mk as usize] - 1) == *mp);
                            if inside && res[0] != -11 { fail!("C02", "unmap of a page inside a larger huge page must report ParentEntryHugePage"); }
                            // the slot of a huge size may hold a page table (observation O2: ParentEntryHugePage); otherwise the page is simply not mapped
                            let slot_holds_table = k > 0 && tables.contains_key(&(k, page & 0x0000_ffff_ffff_ffff));
                            if !inside && !slot_holds_table && res[0] != -13 { fail!("C02", "unmap of an unmapped page must report PageNotMapped"); }
                            if !inside && slot_holds_table && res[0] != -11 && res[0] != -13 { fail!("C02", "unmap of an unmapped page must report PageNotMapped"); }
                        }
                    }
                }
            }
            5 => {
                let (k, page, flags) = (op[1], op[2], op[3]);
                match m.get(&(k, page)).copied() {
                    Some((f, oldfl)) => {
                        if ok {
                            if res.get(1) != Some(&(page as i128)) { fail!("C11", "a successful update_flags must return the flush token of exactly its page"); }
                            // known finding F7b is sticky: PAT_HUGE_PAGE of a huge page sits in the address field, which update_flags keeps
                            let taint = if k > 0 { oldfl & 0x1000 } else { 0 };
                            m.insert((k, page), (f, if k > 0 { flags | HUGE | taint } else { flags }));
                        } else { fail!("C02", "update_flags of a mapped page of that size failed"); }
                    }
                    None => {
                        if ok { fail!("C02", "update_flags reported success for a mapping of a size that does not exist"); }
                        else {
                            had_failure = true;
                            let inside = m.keys().any(|(mk, mp)| *mk > k && page & !(SZ[*mk as usize] - 1) == *mp);
                            if inside && res[0] != -11 { fail!("C02", "update_flags of a page inside a larger huge page must report ParentEntryHugePage"); }
                        }
                    }
                }
            }
            6 => {
                let (k, level, page) = (op[1], op[2], op[3]);
                {
                    // the documented outcome from the oracle's own bookkeeping
                    let t = level - 1;
                    let lo48 = |x: u64| x & 0x0000_ffff_ffff_ffff;
                    let base = lo48(page) & !(SPAN[t as usize] - 1);
                    let want: i128 = if (level == 3 && k == 2) || (level == 2 && k != 0) { -11 }
                        else if m.keys().any(|(mk, mp)| *mk >= t && lo48(*mp) == lo48(page) & !(SZ[*mk as usize] - 1)) { -11 }
                        else if tables.contains_key(&(t, base)) { 0 } else { -13 };
                    if res[0] != want {
                        fail!("C02", "a parent-flag call must succeed exactly on an existing parent entry of that level, report ParentEntryHugePage under/on a huge page and PageNotMapped otherwise");
                    }
                    if ok && want == 0 { pflags_of.insert((t, base), op[4]); }
                }
                if ok {
                    granted.clear();
                    if res.len() != 1 { fail!("C11", "a parent-flag call must return a flush-all token"); }
                    // a parent entry exists only above the leaf level of the page's own mapping
                    if let Some((mk, _, _, _)) = dictated(&m, page) {
                        let leaf_level = mk + 1;
                        if level <= leaf_level { fail!("C02", "a parent-flag call succeeded on an entry that is a mapping, not a parent table entry"); }
                    }
                    let _ = k;
                } else { had_failure = true; }
            }
            7 => {
                let (k, page) = (op[1], op[2]);
                match m.get(&(k, page)).copied() {
                    Some((f, fl)) => {
                        if ok { if res.get(1) != Some(&(f as i128)) { fail!("C01", "translate_page must return the frame the history dictates"); } }
                        else if k > 0 && fl & 0x1000 != 0 && res[0] == -14 { known.push("F7b"); }
                        else { fail!("C01", "translate_page failed for a mapped page of that size"); }
                    }
                    None => { if ok { fail!("C02", "translate_page reported success for a mapping of a size that does not exist"); } }
                }
            }
            8 | 9 | 12 => {
                let va = op[1];
                let d = dictated(&m, va);
                match op[0] {
                    12 => match d {
                        None => { if res != [-2] { fail!("C01", "the hardware walk finds a mapping where the history dictates none"); } }
                        Some((k, page, f, fl)) => {
                            if res.len() != 5 { fail!("C01", "the hardware walk finds no mapping where the history dictates one"); }
                            else {
                                if res[0] != (f + (va - page)) as i128 || res[1] != SZ[k as usize] as i128 { fail!("C01", "the hardware walk reaches a different physical address or page size than the history dictates"); }
                                let leaf = res[2] as u64;
                                {
                                    // effective rights = AND over the parent entries (as the calls dictate them) and the leaf
                                    let lo48 = |x: u64| x & 0x0000_ffff_ffff_ffff;
                                    let (mut w, mut u) = (leaf & 2 != 0, leaf & 4 != 0);
                                    let mut known_all = true;
                                    for level in (k + 1..=3).rev() {
                                        match pflags_of.get(&(level, lo48(va) & !(SPAN[level as usize] - 1))) {
                                            Some(pf) => { w &= pf & 2 != 0; u &= pf & 4 != 0; }
                                            None => known_all = false,
                                        }
                                    }
                                    if known_all && (res[3] != w as i128 || res[4] != u as i128) {
                                        fail!("C01", "the effective writable/user rights along the walk differ from what the map and parent-flag calls dictate for the parent entries of this address");
                                    }
                                }
                                if let Some(g) = granted.get(&(k, page)) {
                                    if g & 2 != 0 && leaf & 2 != 0 && res[3] != 1 { fail!("C01", "the effective writable right along the walk must include the parent flags requested by the map call"); }
                                    if g & 4 != 0 && leaf & 4 != 0 && res[4] != 1 { fail!("C01", "the effective user right along the walk must include the parent flags requested by the map call"); }
                                }
                                let mask = 0xfff0_0000_0000_0fffu64;
                                if leaf & mask != fl & mask { fail!("C01", "the leaf entry's flags differ from the flags the history dictates"); }
                            }
                        }
                    },
                    8 => match d {
                        None => { if res != [-13] { fail!("C01", "translate reports a mapping where the history dictates none"); } }
                        Some((k, page, f, fl)) => {
                            if res.len() != 5 || res[0] != 0 { fail!("C01", "translate reports no mapping where the history dictates one"); }
                            else {
                                if res[1] != SZ[k as usize] as i128 || res[2] != f as i128 || res[3] != (va - page) as i128 { fail!("C01", "translate reports a different frame, size or offset than the history dictates"); }
                                let got = res[4] as u64;
                                if got != fl {
                                    if k == 0 && got == fl | 0x1000 && f & 0x1000 != 0 { known.push("F7a"); }
                                    else if got & 0xfff0_0000_0000_0fff != fl & 0xfff0_0000_0000_0fff { fail!("C01", "translate reports different leaf flags than the history dictates"); }
                                    else if k == 0 { fail!("C01", "translate reports flag bits that were not stored"); }
                                }
                            }
                        }
                    },
                    _ => match d {
                        None => { if res != [-2] { fail!("C01", "translate_addr reports an address where the history dictates none"); } }
                        Some((_, page, f, _)) => { if res != [(f + (va - page)) as i128] { fail!("C01", "translate_addr must be frame start + offset"); } }
                    },
                }
            }
            10 | 11 => {
                // translations are checked by the probes that follow; here: what was freed
                last_cleanup_freed_none = d_freed == 0;
                probes_follow_cleanup = true;
                let (rs, re) = if op[0] == 10 { (0u64, 0xffff_ffff_ffff_f000u64) } else { (op[1], op[2]) };
                let expected_before = expected_freed.len();
                if rs <= re {
                    let lo48 = |x: u64| x & 0x0000_ffff_ffff_ffff;
                    let (rs, re) = (lo48(rs), lo48(re) + 4095);
                    let rec_base = if h.kind == 1 { Some(c[1] << 39) } else { None };
                    for level in 1..=3u64 {
                        let span = SPAN[level as usize];
                        let keys: Vec<(u64, u64)> = tables.keys().copied().filter(|(l, _)| *l == level).collect();
                        for (l, base) in keys {
                            if base + (span - 1) < rs || re < base { continue; }
                            if Some(base & !(SPAN[3] - 1)) == rec_base { continue; }
                            let holds_mapping = m.keys().any(|(mk, mp)| *mk + 1 == level && lo48(*mp) & !(span - 1) == base);
                            let holds_table = tables.keys().any(|(tl, tb)| *tl + 1 == level && tb & !(span - 1) == base);
                            if !holds_mapping && !holds_table {
                                expected_freed.push(tables.remove(&(l, base)).unwrap());
                                pflags_of.remove(&(l, base));
                            }
                        }
                    }
                }
                let want_now = (expected_freed.len() - expected_before) as i128;
                if d_freed > want_now { fail!("C10", "this clean-up call deallocated more tables than the empty ones overlapping its range (independent table bookkeeping)"); }
                if d_freed < want_now { fail!("C10", "this clean-up call left behind an empty table that overlaps its range (independent table bookkeeping)"); }
            }
            13 => {
                // a table that holds nothing (by the oracle's own bookkeeping) must read all zero
                if res.len() == h.frames.len() {
                    for ((level, base), f) in tables.iter() {
                        let span = SPAN[*level as usize];
                        let lo48 = |x: u64| x & 0x0000_ffff_ffff_ffff;
                        let holds = m.keys().any(|(mk, mp)| *mk + 1 == *level && lo48(*mp) & !(span - 1) == *base)
                            || tables.keys().any(|(tl, tb)| *tl + 1 == *level && tb & !(span - 1) == *base);
                        if !holds {
                            if let Some(j) = h.frames.iter().position(|x| x == f) {
                                if res[j] != 0 { fail!("C09", "a page-table frame obtained from the allocator is not all zero although nothing was mapped through it"); }
                            }
                        }
                    }
                }
                // data frames (listed after the table frames) must never change
                if first_dump.is_none() { first_dump = Some(res.to_vec()); }
                if let Some(fd) = &first_dump {
                    for (j, f) in h.frames.iter().enumerate() {
                        if *f != h.root && !table_frames.contains(f) && res.get(j) != fd.get(j) { fail!("C09", "a mapped data frame (or other non-table memory) was modified"); }
                    }
                }
            }
            14 => {
                let mut got: Vec<u64> = res.iter().map(|f| *f as u64).collect();
                let mut want = expected_freed.clone();
                got.sort(); want.sort();
                if got != want {
                    if got.iter().any(|f| !want.contains(f)) { fail!("C10", "clean_up deallocated a table that was not empty, did not overlap the range, or was not a table (independent table bookkeeping)"); }
                    else { fail!("C10", "clean_up left behind an empty table that overlaps the range (independent table bookkeeping)"); }
                }
                let mut seen = HashSet::new();
                for f in res {
                    let f = *f as u64;
                    if f == h.root { fail!("C10", "clean_up deallocated the level-4 table"); }
                    if !table_frames.contains(&f) { fail!("C10", "clean_up deallocated a frame that is not a page table of the hierarchy (e.g. a huge-page frame)"); }
                    if !seen.insert(f) { fail!("C10", "clean_up deallocated a table twice"); }
                }
            }
            _ => {}
        }
        if matches!(op[0], 1 | 2 | 4 | 5 | 6) && !ok {
            let page = if op[0] == 6 { op[3] } else { op[2] };
            failed_regions.insert(page & !0x3fff_ffff);
        }
        if matches!(op[0], 7 | 8 | 9 | 12) && fails[nf_before..].iter().any(|f| f.0 == "C01") {
            let va = if op[0] == 7 { op[2] } else { op[1] };
            if failed_regions.contains(&(va & !0x3fff_ffff)) {
                fail!("C02", "after a failed call in the same 1 GiB region, an address no longer translates to what the successful calls dictate");
            }
        }
        if probes_follow_cleanup && matches!(op[0], 7 | 8 | 9 | 12) && fails[nf_before..].iter().any(|f| f.0 == "C01") {
            fail!("C10", "a translation differs from the history-dictated one right after a clean-up");
        }
        // repeating clean_up must deallocate nothing
        if op[0] == 10 && i > 0 && (h.ops[i - 1][0] == 10) && d_freed != 0 { fail!("C10", "repeating the clean-up deallocated something"); }
    }
    let _ = last_cleanup_freed_none;
    let _ = h.kind;
    let nontrivial = (sizes_mapped.len() >= 2 && had_failure) || nontrivial_c09;
    (fails, known, nontrivial)
}

fn parse_ans(s: &str) -> Vec<i128> {
    s.split_ascii_whitespace()
        .map(|t| if let Some(r) = t.strip_prefix('-') { -(i128::from_str_radix(r, 16).unwrap()) } else { i128::from_str_radix(t, 16).unwrap() })
        .collect()
}

/// judges every history; reports only the clauses that belong to `prop` (C11: the token clauses)
pub fn oracle(prop: &str) {
    use std::io::BufRead;
    let args: Vec<String> = std::env::args().collect();
    let cases = std::io::BufReader::new(std::fs::File::open(&args[3]).unwrap());
    let answers = std::io::BufReader::new(std::fs::File::open(&args[4]).unwrap());
    let (mut evals, mut nfails, mut calls) = (0u64, 0u64, 0u64);
    let mut distinct: HashSet<u64> = HashSet::new();
    let mut kinds: BTreeMap<u64, u64> = BTreeMap::new();
    let mut opmix: BTreeMap<u64, u64> = BTreeMap::new();
    let mut errmix: BTreeMap<i128, u64> = BTreeMap::new();
    let mut known_seen: BTreeMap<&'static str, u64> = BTreeMap::new();
    for (ln, (cl, al)) in cases.lines().zip(answers.lines()).enumerate() {
        let (cl, al) = (cl.unwrap(), al.unwrap());
        let c = parse_line(&cl);
        let a = parse_ans(&al);
        evals += 1;
        *kinds.entry(c[0]).or_default() += 1;
        if let Some(h) = parse(&c) {
            calls += h.ops.len() as u64;
            for (i, op) in h.ops.iter().enumerate() {
                *opmix.entry(op[0]).or_default() += 1;
                if let Some(ans) = a.split(|x| *x == -3).nth(i) { if let Some(f) = ans.first() { if *f <= -10 && *f >= -14 { *errmix.entry(*f).or_default() += 1; } } }
            }
        }
        let (fails, known, nt) = judge(&c, &a);
        if nt {
            use std::hash::{Hash, Hasher};
            let mut hs = std::collections::hash_map::DefaultHasher::new();
            c.hash(&mut hs);
            distinct.insert(hs.finish());
        }
        for id in known {
            let applies = match id { "F7a" | "F7b" => prop == "C01", _ => false };
            if applies {
                let n = known_seen.entry(id).or_default();
                *n += 1;
                if *n <= 2 { println!("KNOWN {} | {} | {} | {}", id, ln + 1, &cl[..cl.len().min(400)], &al[..al.len().min(400)]); }
            }
        }
        for (p, clause) in fails {
            if p == prop {
                nfails += 1;
                if nfails <= 30 { println!("FAIL {} | {} | {} | {}", ln + 1, cl, &al[..al.len().min(3000)], clause); }
            }
        }
    }
    let j = |m: &BTreeMap<u64, u64>, pre: &str| m.iter().map(|(k, v)| format!("\"{}{}\":{}", pre, k, v)).collect::<Vec<_>>().join(",");
    let e = errmix.iter().map(|(k, v)| format!("\"err{}\":{}", -k, v)).collect::<Vec<_>>().join(",");
    let kn = known_seen.iter().map(|(k, v)| format!("\"{}\":{}", k, v)).collect::<Vec<_>>().join(",");
    println!("SUMMARY {{\"evaluations\":{},\"mapper_calls\":{},\"oracle_failures\":{},\"distinct_nontrivial\":{},\"known_finding_hits\":{{{}}},\"mapper_kinds\":{{{}}},\"operation_mix\":{{{}}},\"error_mix\":{{{}}}}}", evals, calls, nfails, distinct.len(), kn, j(&kinds, "kind"), j(&opmix, "op"), e);
    let _: Option<V> = None;
}
