COMMON_NOTE = ('Trusted: Coq 8.16.1 kernel (no axioms: every theorem Closed under the global context; no native_compute); the hand-written Gallina model is tied to /repo by the correspondence check only '
               '(Rust harness on the working tree vs. extracted OCaml model, same cases, both build profiles where overflow matters), so the harness, generators, ExtrOcamlBasic extraction and ocaml/driver.ml are trusted; '
               'the code is modelled, not verified directly.')
TECH = 'Coq proof over a hand-written Gallina model + differential correspondence check (implementation vs extracted model) + model-independent property oracle'
CHECKS = [
 dict(property_id='C03', design_ref='DESIGN.md section 6, C03',
  text='Coq theorems: inductive closure of all safe address-returning operations (ReachVA/ReachPA) implies canonical / <2^52 for every finite program; constructors characterised for all u64 (accept exactly valid, unchanged; truncation idempotent, low 48/52 bits only); canonical <-> bits 48-63 = bit 47. Model tied to the code by differential runs in debug and release on boundary-directed inputs and random programs; an independent bit-level oracle judges every implementation answer.',
  note=COMMON_NOTE, technique=TECH),
 dict(property_id='C04', design_ref='DESIGN.md section 6, C04',
  text='Coq theorems for all u64/canonical addresses: index/offset accessors are the bit fields; from_page_table_indices{,_2mib,_1gib} yields the unique canonical aligned page with those indices (existence + uniqueness); constructors over all u16; level helpers. Correspondence exhaustive over u16 constructor inputs and all p4, sampled elsewhere.',
  note=COMMON_NOTE, technique=TECH),
 dict(property_id='C05', design_ref='DESIGN.md section 6, C05',
  text='Coq theorems: forward/backward/steps_between equal the specification over the order isomorphism pos: canonical -> [0,2^48) for all addresses and all u64 counts (gap jump, ends, counts >= 2^48, count*SIZE overflow), pages of the three sizes, table indices; mutual-inverse corollaries. Correspondence through core::iter::Step in both profiles.',
  note=COMMON_NOTE, technique=TECH),
 dict(property_id='C06', design_ref='DESIGN.md section 6, C06',
  text='Coq theorems for all u64 addresses and all 64 power-of-two alignments: align_down/up return the greatest/least multiple (least/greatest *canonical* multiple for VirtAddr, alignments <= 2^47), exact panic conditions (non-power-of-two; overflow of 2^64 resp. 2^52); is_aligned; containing_address / from_start_address for pages and frames of the three sizes.',
  note=COMMON_NOTE, technique=TECH),
 dict(property_id='C07', design_ref='DESIGN.md section 6, C07',
  text='Coq theorems: every +,-,+=,-= and difference on VirtAddr/PhysAddr/Page/PhysFrame returns exactly the mathematical result when that is a valid value and panics otherwise (the model has no profile parameter on these paths); for ranges of ANY length with bounds in one half (resp. < 2^52): len = number of items yielded, items are start, start+1.. ascending, no panic (incl. last page of either half / last frame), None afterwards, size = len*SIZE, 2MiB->4KiB conversion keeps the bytes; induction on the item count. Correspondence in debug and release.',
  note=COMMON_NOTE + ' Four genuine defects found here were repaired by fix: commits in /repo (known_findings.txt).', technique=TECH),
 dict(property_id='C08', design_ref='DESIGN.md section 6, C08',
  text='Coq theorems for every 4 KiB-aligned address < 2^52 and every flag set from bits 0-11 and 52-63: set_addr/set_frame store exactly address+flags (hardware layout), reject misaligned addresses; addr() reads the address back; flags() reads the flags back exactly unless address bit 12 is set (known finding F7a, with refutation witness); set_flags keeps the address; unused iff zero; frame iff PRESENT; induction over every setter sequence; table = 512 words, set/get algebra, little-endian byte image, new/zero/is_empty. Partial: rustc struct layout is observed exhaustively over slots and access paths on the compiled artefact, not proved.',
  note=COMMON_NOTE + ' Known finding F7a is listed in known_findings.txt.', technique=TECH),
]
DONE = {c['property_id'] for c in CHECKS}
NOT_APPLICABLE = [dict(property_id='C%02d' % i, reason='check not built yet in this session (planned: Coq model + correspondence as in DESIGN.md section 6); nothing is claimed for it') for i in range(1, 21) if 'C%02d' % i not in DONE]
HOOK_COMMITS = []
NOTES = 'Technique family: machine-checked proof in Coq 8.16.1 over a hand-written executable model, tied to /repo on every run by a correspondence check. See DESIGN.md.'
