#!/bin/sh
# print a rust file without doc comments and without trailing test modules (reading aid only)
awk '/^#\[cfg\(test\)\]|^#\[cfg\(kani\)\]|^mod tests/ {exit} {print NR": "$0}' "$1" | grep -v '^[0-9]*: \s*///\|^[0-9]*: \s*//!\|^[0-9]*: \s*#\[inline\]\|^[0-9]*: $'
