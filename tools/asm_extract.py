#!/usr/bin/env python3
"""Translator: every asm! block of the crate -> coq/theories/Gen/AsmTable_gen.v.
For each block: where it is (file, enclosing fn, macro instantiation), the template strings
after concat!/macro-parameter substitution, the operands (direction, register class or explicit
register, bound expression) and the options.  Fails closed: anything it cannot parse aborts."""
import re, sys, os, glob

REPO = sys.argv[1] if len(sys.argv) > 1 else '/repo'
OUT = sys.argv[2] if len(sys.argv) > 2 else os.path.join(os.path.dirname(os.path.dirname(os.path.abspath(__file__))), 'coq', 'theories', 'Gen', 'AsmTable_gen.v')
FILES = sorted(glob.glob(os.path.join(REPO, 'src/instructions/*.rs')) + glob.glob(os.path.join(REPO, 'src/registers/*.rs')) + [os.path.join(REPO, 'src/structures/idt.rs')])

def strip_comments(t):
    out = []; i = 0; n = len(t)
    while i < n:
        if t.startswith('//', i):
            j = t.find('\n', i); i = n if j < 0 else j
        elif t.startswith('/*', i):
            j = t.find('*/', i); i = n if j < 0 else j + 2
        elif t[i] == '"':
            j = i + 1
            while j < n and t[j] != '"':
                j += 2 if t[j] == '\\' else 1
            out.append(t[i:j + 1]); i = j + 1
        else:
            out.append(t[i]); i += 1
    return ''.join(out)

def match_paren(t, i, open_c, close_c):
    """t[i] == open_c; return index of the matching close_c (strings respected)"""
    depth = 0; n = len(t)
    while i < n:
        c = t[i]
        if c == '"':
            i += 1
            while i < n and t[i] != '"':
                i += 2 if t[i] == '\\' else 1
        elif c in '([{': depth += 1
        elif c in ')]}':
            depth -= 1
            if depth == 0:
                if c != close_c: raise SystemExit('unbalanced delimiters')
                return i
        i += 1
    raise SystemExit('unterminated delimiter')

def split_top(t):
    parts = []; depth = 0; cur = []; i = 0; n = len(t)
    while i < n:
        c = t[i]
        if c == '"':
            j = i + 1
            while j < n and t[j] != '"':
                j += 2 if t[j] == '\\' else 1
            cur.append(t[i:j + 1]); i = j + 1; continue
        if c in '([{': depth += 1
        elif c in ')]}': depth -= 1
        if c == ',' and depth == 0:
            parts.append(''.join(cur).strip()); cur = []
        else: cur.append(c)
        i += 1
    if ''.join(cur).strip(): parts.append(''.join(cur).strip())
    return parts

def template_of(arg):
    """a string literal or concat!(lit, lit, ...) -> its text, else None"""
    arg = arg.strip()
    m = re.fullmatch(r'"((?:[^"\\]|\\.)*)"', arg)
    if m: return m.group(1)
    m = re.fullmatch(r'concat!\s*\((.*)\)', arg, re.S)
    if m:
        pieces = []
        for p in split_top(m.group(1)):
            mm = re.fullmatch(r'"((?:[^"\\]|\\.)*)"', p.strip())
            if not mm: raise SystemExit('cannot evaluate concat! piece: ' + p)
            pieces.append(mm.group(1))
        return ''.join(pieces)
    return None

def find_macros(t):
    macros = {}; spans = []
    for m in re.finditer(r'macro_rules!\s*(\w+)\s*\{', t):
        end = match_paren(t, m.end() - 1, '{', '}')
        body = t[m.end():end]
        arm = re.search(r'\(([^)]*)\)\s*=>\s*\{', body)
        if not arm: raise SystemExit('macro_rules arm not understood: ' + m.group(1))
        params = re.findall(r'\$(\w+)\s*:\s*\w+', arm.group(1))
        bend = match_paren(body, arm.end() - 1, '{', '}')
        macros[m.group(1)] = (params, body[arm.end():bend])
        spans.append((m.start(), end + 1))
    return macros, spans

def blank(t, spans):
    t = list(t)
    for a, b in spans:
        for i in range(a, b):
            if t[i] != '\n': t[i] = ' '
    return ''.join(t)

entries = []
shapes = []
def scan(text, ctx, macros, fname, depth=0):
    if depth > 6: raise SystemExit('macro expansion too deep')
    for m in re.finditer(r'\b(?:core::arch::)?asm!\s*\(', text):
        end = match_paren(text, m.end() - 1, '(', ')')
        args = split_top(text[m.end():end])
        templates = []; operands = []; options = []
        for a in args:
            tpl = template_of(a) if not operands and not options else None
            if tpl is not None: templates.append(tpl); continue
            mo = re.fullmatch(r'options\s*\((.*)\)', a, re.S)
            if mo: options += [o.strip() for o in mo.group(1).split(',') if o.strip()]; continue
            a = re.sub(r'\s+', ' ', a)
            # a bare local variable as the bound expression is recorded as `_`: renaming a local is not a
            # change of the block (which variable is bound where is decided by running the code)
            a = re.sub(r'^((?:\w+ = )?(?:in|out|inout|lateout|inlateout)\("?\w+"?\)) [A-Za-z_]\w*$', r'\1 _', a)
            operands.append(a)
        if not templates: raise SystemExit('asm! without template in ' + fname)
        fns = re.findall(r'\bfn\s+(\w+)', text[:m.start()])
        fn = fns[-1] if fns else '?'
        entries.append((fname + '::' + fn + ctx, templates, operands, sorted(options)))
        if fname == 'instructions/port.rs':
            # the whole body of the function around the block, with the block itself replaced by ASM and
            # white space removed: a port access function must consist of its asm! block and nothing else
            fm = list(re.finditer(r'\bfn\s+\w+', text[:m.start()]))
            if not fm: raise SystemExit('asm! outside a function in ' + fname)
            bstart = text.index('{', fm[-1].end())
            bend = match_paren(text, bstart, '{', '}')
            body = text[bstart + 1:m.start()] + 'ASM' + text[end + 1:bend]
            shape = re.sub(r'\s+', '', body)
            # the name of the local that receives the value read is immaterial
            shape = re.sub(r'^let(\w+):(u8|u16|u32);unsafe\{ASM;\}\1$', r'let_:\2;unsafe{ASM;}_', shape)
            shapes.append((fname + '::' + fn + ctx, templates, shape))
    for name, (params, body) in macros.items():
        for m in re.finditer(r'\b' + name + r'!\s*\(', text):
            end = match_paren(text, m.end() - 1, '(', ')')
            args = split_top(text[m.end():end])
            if len(args) != len(params): raise SystemExit('macro %s arity mismatch' % name)
            b = body
            for p, a in zip(params, args): b = re.sub(r'\$' + p + r'\b', lambda _m, a=a: a, b)
            scan(b, ctx + '[' + name + '!(' + ', '.join(re.sub(r'\s+', ' ', a) for a in args) + ')]', macros, fname, depth + 1)

for f in FILES:
    t = strip_comments(open(f).read())
    # cut test modules
    t = re.split(r'#\[cfg\(test\)\]', t)[0]
    macros, spans = find_macros(t)
    scan(blank(t, spans), '', macros, os.path.relpath(f, os.path.join(REPO, 'src')))

def q(s): return '"' + s.replace('\\"', "'").replace('"', '""').replace('\\n', ' ').replace('\\', '/') + '"'
def ql(l): return '[' + '; '.join(q(x) for x in l) + ']'
lines = ['(* GENERATED by tools/asm_extract.py from the asm! blocks of /repo/src - do not edit. *)',
         'Require Import String List.', 'Import ListNotations.', 'Open Scope string_scope.', '',
         '(* (location, templates, operands, options) *)',
         'Definition asm_table : list (string * list string * list string * list string) := [']
lines.append(';\n'.join('  (%s, %s, %s, %s)' % (q(e[0]), ql(e[1]), ql(e[2]), ql(e[3])) for e in entries))
lines.append('].')
lines += ['', '(* port access functions: (location, templates, body of the function with the asm! block replaced by ASM, white space removed) *)',
          'Definition port_fn_shapes : list (string * list string * string) := [']
lines.append(';\n'.join('  (%s, %s, %s)' % (q(e[0]), ql(e[1]), q(e[2])) for e in shapes))
lines.append('].')
new = '\n'.join(lines) + '\n'
old = open(OUT).read() if os.path.exists(OUT) else None
if new != old:
    open(OUT, 'w').write(new)
print('asm_extract: %d asm! blocks from %d files%s' % (len(entries), len(FILES), '' if new != old else ' (unchanged)'))
