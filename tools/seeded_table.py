#!/usr/bin/env python3
"""prints the markdown table of DESIGN.md section 13.5 from seeded/*/*/meta.json"""
import json, glob, os, re
rows = []
for mf in sorted(glob.glob('/verif/seeded/C*/*/meta.json')):
    m = json.load(open(mf)); pid, n = mf.split('/')[-3], mf.split('/')[-2]
    summ = (m.get('agent', {}).get('summary') or '').replace('|', '/').replace('\n', ' ')
    if len(summ) > 150: summ = summ[:147] + '...'
    res = []
    for c, r in (m.get('checks') or {}).items():
        if r.get('violation_line') is None: res.append('%s: NOT DETECTED' % c)
        elif r.get('with_failing_input'): res.append('%s: VIOLATION with failing input (%s)' % (c, (r.get('oracle') or r.get('kind') or '')[:90].replace('|', '/')))
        else: res.append('%s: VIOLATION no-failing-input-found (%s%s)' % (c, r.get('kind') or '', ', also ' + ','.join(r.get('also')) if r.get('also') else ''))
    demo = 'demo passes on pristine, fails on patched' if m.get('demo_on_pristine_debug') == 'passes' and (m.get('demo_on_patched_debug') == 'fails' or m.get('demo_on_patched_release') == 'fails') else 'no user-mode demo (read + replay)'
    rows.append('| %s/%s | %s | %s | %s |' % (pid, n, summ, demo, '; '.join(res)))
print('| seeded change | what was changed | confirmation | what the check reported |\n|---|---|---|---|')
print('\n'.join(rows))
