# per-property configuration of the check driver
ADDR_TB = ['model: coq/theories/Addr/Model.v (hand-written from src/addr.rs, paging/page.rs, paging/frame.rs, paging/page_table.rs index/offset/level types)']
MACH_TB = ['model: coq/theories/Machine/{State,Wrappers}.v (mini-ISA transcribed from the manuals + wrapper glue of src/registers/*.rs, src/instructions/{interrupts,port,segmentation,tables,tlb}.rs)',
 'software CPU (harness/src/softcpu.rs): SIGSEGV/SIGILL trap-and-emulate of the privileged instructions, emulated register file; hooks H2 (IF overlay) and H4 (XCR0 overlay)',
 'translator tools/asm_extract.py (asm! templates, operand bindings, options -> coq/theories/Gen/AsmTable_gen.v, regenerated every run)']
ASMGEN = [dict(tool='asm_extract.py', args=[])]
TBL_TB = ['model: coq/theories/Tables/{Gdt,Idt}.v (src/structures/gdt.rs, idt.rs, tss.rs, structures/mod.rs)',
 'coq/theories/Arch/Manual.v: hand transcription of the SDM/APM gate and descriptor formats (the oracle for "architectural encoding")',
 'struct layout chosen by rustc (repr(C), packed, align) is observed on the compiled artefact, not proved']
PROPS = {
 'C12': dict(engine='tbl', profiles=['debug', 'release'], trusted_base=TBL_TB, exhaustive=True,
   rule='all 256 vectors through index read and write paths and all named fields (exhaustive); all 65536 (start,end) pairs, each with two (thorough: all 15) RangeBounds forms through slice/slice_mut/Index/IndexMut/&u8 variants; random programs of 1-10 entry setters decoded by an independent gate decoder; new/reset/load; non-trivial = a setter after set_handler_addr, an exception vector, or a range touching 32/256'),
 'C14': dict(engine='tbl', profiles=['debug'], trusted_base=TBL_TB,
   rule='MAX in {0,1,2,3,8,9,8192,8193}; random append sequences of user/system descriptors (all DPLs, random words) running past the capacity; from_raw_entries slices of length 0..MAX+1; load through the software CPU; non-trivial = an append was refused or the table holds more than two slots'),
 'C15': dict(engine='tbl', profiles=['debug'], trusted_base=TBL_TB,
   rule='tss_segment_unchecked on every single-bit, inverted single-bit, low-ones and byte pattern plus boundary/random pointers; dpl() on random descriptor words; the six presets; offsets/sizes of TaskStateSegment and DescriptorTablePointer; non-trivial = pointer with bits above 24 set / non-zero DPL'),
 'C11': dict(engine='mach', profiles=['debug'], gen=ASMGEN, trusted_base=MACH_TB,
   rule='flush on canonical addresses; flush_all on every low-12-bit pattern of CR3 x random frames; flush_pcid on all 4096 PCIDs x 4 kinds; the INVLPGB builder on ranges (4KiB/2MiB; empty, short, >65535 pages, reaching/spanning the gap, ending at the top) x count_max in {0,1,2,3,7,255,256,65534,65535,random} x 32 option sets; non-trivial = more than one request or the range touches the gap/top, or CR3 low bits outside the two flag bits'),
 'C16': dict(engine='mach', profiles=['debug', 'release'], gen=ASMGEN, trusted_base=MACH_TB,
   rule='one wrapper call per case on a prior register file (all-ones, single bits, reserved-only, modelled-only, random) with bystander registers of the same class set to distinct values; arguments: flag subsets incl. undeclared bits, frames, all PCIDs, selector quadruples around the documented relations, PAT tables, DR7 fields; non-trivial = prior content has a bit outside the modelled mask, or the call is rejected/panics'),
 'C17': dict(engine='mach', profiles=['debug'], gen=ASMGEN, trusted_base=MACH_TB,
   rule='both initial flag states x all nesting shapes (branching <= 2) to depth 3 (thorough: 4) exhaustively, then random trees to depth 6 (thorough: 12) with branching <= 3; enable/disable/are_enabled/enable_and_hlt/hlt; non-trivial = at least two nested without_interrupts'),
 'C18': dict(engine='mach', profiles=['debug'], gen=ASMGEN, trusted_base=MACH_TB, exhaustive=True,
   rule='all 65536 ports x 3 widths x {read, write} (exhaustive in ports and widths) with boundary/random values and both access kinds per direction; eq/clone on equal, one-bit-different and random port pairs; non-trivial = port 0, 0xffff or a power of two, or an all-zeros/all-ones value'),
 'C08': dict(engine='pte', profiles=['debug'], trusted_base=['model: coq/theories/Paging/Entry.v (PageTableEntry, PageTable of src/structures/paging/page_table.rs); struct layout chosen by rustc (repr(C, align(4096)), repr(transparent)) is observed on the compiled artefact, not proved'],
   rule='raw entries through every getter; programs of 1-8 setters (set_addr/set_frame/set_flags/set_unused) over aligned addresses x flag sets from bits 0-11 and 52-63 (plus misaligned addresses and undeclared/PAT_HUGE_PAGE flags as the malformed stream); every one of the 512 slots written through each of the three write paths and read back through all four read paths and raw bytes (exhaustive in slots and paths); non-trivial = program stores a non-zero address with non-zero flags, or a table with at least one write',
   assumptions=['known finding F7a (flags() reports PAT_HUGE_PAGE when address bit 12 is set) is classified by the oracle and listed in known_findings.txt']),
 'C03': dict(engine='addr', profiles=['debug', 'release'], trusted_base=ADDR_TB,
   rule='corpus, then every model constant and power of two +-2 through every constructor, then boundary-directed/structured random u64, then random programs of 1-30 safe operations; distinct = distinct case; non-trivial = operand within 2 of a model constant or power of two, or address in the upper half / above 2^40, or a panic'),
 'C04': dict(engine='addr', profiles=['debug'], trusted_base=ADDR_TB, exhaustive=False,
   rule='all u16 for the four index/offset constructors (exhaustive), all p4 x edge/random p3,p2,p1 for from_page_table_indices*, random canonical addresses and pages; non-trivial = p4 >= 256 (sign extension) or an index equal to 0 or 511, or a rejected value'),
 'C05': dict(engine='addr', profiles=['debug', 'release'], trusted_base=ADDR_TB,
   rule='all 512 table indices x edge counts; canonical addresses/pages x counts aimed at the gap, both ends, 2^48 and count*SIZE overflow; non-trivial = the step crosses or touches the gap or an end, or count >= 2^47'),
 'C06': dict(engine='addr', profiles=['debug', 'release'], trusted_base=ADDR_TB,
   rule='all 64 power-of-two alignments x addresses around each multiple, the gap, 2^52, the top; non-powers as the panic stream; pages/frames of the three sizes; non-trivial = result differs from input, or panic'),
 'C07': dict(engine='addr', profiles=['debug', 'release'], trusted_base=ADDR_TB,
   rule='operators on pairs aimed at 2^47, 2^48, 2^52, 2^64 and offset*SIZE overflow edges, both profiles; ranges of the four types x three sizes placed at the first/last pages of each half and the last frame, lengths 0..5 and random; non-trivial = result invalid/near a boundary, or range touches a half end or is empty'),
}
