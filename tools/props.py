# per-property configuration of the check driver
ADDR_TB = ['model: coq/theories/Addr/Model.v (hand-written from src/addr.rs, paging/page.rs, paging/frame.rs, paging/page_table.rs index/offset/level types)']
PROPS = {
 'C08': dict(engine='pte', profiles=['debug'], trusted_base=['model: coq/theories/Paging/Entry.v (PageTableEntry, PageTable of src/structures/paging/page_table.rs); struct layout chosen by rustc (repr(C, align(4096)), repr(transparent)) is observed on the compiled artefact, not proved'],
   rule='raw entries through every getter; programs of 1-8 setters (set_addr/set_frame/set_flags/set_unused) over aligned addresses x flag sets from bits 0-11 and 52-63 (plus misaligned addresses and undeclared/PAT_HUGE_PAGE flags as the malformed stream); every one of the 512 slots written through each of the three write paths and read back through all four read paths and raw bytes (exhaustive in slots and paths); non-trivial = program stores a non-zero address with non-zero flags, or a table with at least one write',
   assumptions=['known finding F7a (flags() reports PAT_HUGE_PAGE when address bit 12 is set) is classified by the oracle and listed in known_findings.txt']),
 'C03': dict(engine='addr', profiles=['debug', 'release'], trusted_base=ADDR_TB,
   rule='corpus, then every model constant and power of two +-2 through every constructor, then boundary-directed/structured random u64, then random programs of 1-30 safe operations; distinct = distinct case; non-trivial = operand within 2 of a model constant or power of two, or address in the upper half / above 2^40, or a panic'),
 'C04': dict(engine='addr', profiles=['debug'], trusted_base=ADDR_TB, exhaustive=False,
   rule='all u16 for the four index/offset constructors (exhaustive), all p4 x edge/random p3,p2,p1 for from_page_table_indices*, random canonical addresses and pages; non-trivial = p4 >= 256 (sign extension) or an index equal to 0 or 511, or a rejected value'),
 'C05': dict(engine='addr', profiles=['debug', 'release'], trusted_base=ADDR_TB,
   rule='all 512 table indices x edge counts; canonical addresses/pages x counts aimed at the gap, both ends, 2^48 and count*SIZE overflow; non-trivial = the step crosses or touches the gap or an end, or count >= 2^47'),
 'C06': dict(engine='addr', profiles=['debug', 'release'], trusted_base=ADDR_TB,
   rule='all 64 power-of-two alignments x addresses around each multiple, the gap, 2^52, the top; non-powers as the panic stream; pages/frames of the three sizes; non-trivial = result differs from input, or panic'),
 'C07': dict(engine='addr', profiles=['debug', 'release'], trusted_base=ADDR_TB,
   rule='operators on pairs aimed at 2^47, 2^48, 2^52, 2^64 and offset*SIZE overflow edges, both profiles; ranges of the four types x three sizes placed at the first/last pages of each half and the last frame, lengths 0..5 and random; non-trivial = result invalid/near a boundary, or range touches a half end or is empty'),
}
