#!/usr/bin/env python3
"""Translator: the set_general_handler! macros of src/structures/idt.rs -> coq/theories/Gen/General_gen.v.
Emits: the weights of the positional bits in `const IDX`, whether the `$range.contains(&IDX)`
guard is present, and every arm of set_general_handler_entry! in source order (bit pattern or
catch-all; reserved (empty body) or stub: the IDT field written, whether the stub takes an
error code, whether it diverges, whether the index passed to the general handler is the
macro's IDX, which error-code expression is passed).  Fails closed on anything unexpected."""
import re, sys, os
REPO = sys.argv[1] if len(sys.argv) > 1 else '/repo'
OUT = sys.argv[2] if len(sys.argv) > 2 else os.path.join(os.path.dirname(os.path.dirname(os.path.abspath(__file__))), 'coq', 'theories', 'Gen', 'General_gen.v')
src = open(os.path.join(REPO, 'src/structures/idt.rs')).read()
src = re.sub(r'//[^\n]*', '', src)

def die(m): sys.stderr.write('gh_extract: ' + m + '\n'); sys.exit(2)
def macro_body(name):
    m = re.search(r'macro_rules!\s+' + name + r'\s*\{', src)
    if not m: die('macro %s not found' % name)
    i = m.end() - 1; depth = 0
    for j in range(i, len(src)):
        if src[j] == '{': depth += 1
        elif src[j] == '}':
            depth -= 1
            if depth == 0: return src[i + 1:j]
    die('unterminated macro ' + name)
def split_arms(body):
    """macro arms `(pattern) => { body };` at top level"""
    arms = []; i = 0; n = len(body)
    while True:
        while i < n and body[i] in ' \t\n;': i += 1
        if i >= n: break
        if body[i] != '(': die('arm does not start with ( at: ' + body[i:i + 40])
        depth = 0
        for j in range(i, n):
            if body[j] == '(': depth += 1
            elif body[j] == ')':
                depth -= 1
                if depth == 0: break
        pat = body[i + 1:j]
        k = body.index('=>', j) + 2
        while body[k] in ' \t\n': k += 1
        if body[k] != '{': die('arm body does not start with {')
        depth = 0
        for e in range(k, n):
            if body[e] == '{': depth += 1
            elif body[e] == '}':
                depth -= 1
                if depth == 0: break
        arms.append((pat, body[k + 1:e])); i = e + 1
    return arms

def metavars(pat):
    """the metavariables of a macro pattern, in order: [(name, fragment)]"""
    return re.findall(r'\$(\w+)\s*:\s*(\w+)', pat)
def rename(text, mapping):
    """renames $metavariables (mapping: old -> new) simultaneously"""
    return re.sub(r'\$(\w+)', lambda m: '$' + mapping.get(m.group(1), m.group(1)), text)
def canon_full_arm(pat, body):
    """positional names for the arm `($idt:expr, $handler:ident, $range:expr, 8 x $bit:tt)`"""
    mv = metavars(pat)
    if len(mv) != 11 or [f for _, f in mv[3:]] != ['tt'] * 8: die('unexpected parameters of the IDX arm: %r' % (mv,))
    mapping = {mv[0][0]: 'idt', mv[1][0]: 'handler', mv[2][0]: 'range'}
    for k, (n, _) in enumerate(mv[3:]): mapping[n] = 'bit%d' % (7 - k)
    if len(mapping) != 11: die('repeated parameter names in the IDX arm')
    return rename(pat, mapping), rename(body, mapping)
def canon_rec_arm(pat, body):
    mv = metavars(pat)
    if len(mv) != 4 or mv[3][1] != 'tt': die('unexpected parameters of the recursive arm: %r' % (mv,))
    mapping = {mv[0][0]: 'idt', mv[1][0]: 'handler', mv[2][0]: 'range', mv[3][0]: 'bits'}
    return rename(pat, mapping), rename(body, mapping)
def canon_entry_arm(pat, body):
    mv = metavars(pat)
    if len(mv) not in (3, 4): die('unexpected parameters of an entry arm: %r' % (mv,))
    mapping = {mv[0][0]: 'idt', mv[1][0]: 'handler', mv[2][0]: 'idx'}
    if len(mv) == 4: mapping[mv[3][0]] = '_bits'
    pat, body = rename(pat, mapping), rename(body, mapping)
    # the stub: its own name and the names of its parameters are immaterial
    fn = re.search(r'extern\s+"x86-interrupt"\s+fn\s+(\w+)\s*\(([^)]*)\)', body)
    if fn:
        names = {fn.group(1): 'handler'}
        ps = [q.strip() for q in fn.group(2).split(',') if q.strip()]
        for k, q in enumerate(ps[:2]):
            names[q.split(':')[0].strip()] = ['frame', 'error_code'][k]
        body = re.sub(r'(?<![\w$])(' + '|'.join(re.escape(n) for n in names) + r')(?!\w)', lambda m: names[m.group(1)], body)
    return pat, body

# ---- recursive_bits: the parameter order and the IDX expression
rb = split_arms(macro_body('set_general_handler_recursive_bits'))
full = [a for a in rb if 'const IDX' in a[1]]
if len(full) != 1: die('expected exactly one arm defining IDX')
pat, body = canon_full_arm(*full[0])
params = re.findall(r'\$(bit\d)\s*:\s*tt', pat)
if len(params) != 8 or len(set(params)) != 8: die('expected 8 distinct bit parameters, got %r' % params)
m = re.search(r'const IDX\s*:\s*u8\s*=\s*([^;]*);', body)
terms = [t.strip() for t in m.group(1).split('|')]
weight = {}
for t in terms:
    mm = re.fullmatch(r'\(?\s*\$(bit\d)\s*(?:<<\s*(\d+))?\s*\)?', t)
    if not mm: die('unexpected IDX term: ' + t)
    if mm.group(1) in weight: die('bit used twice in IDX')
    weight[mm.group(1)] = int(mm.group(2) or 0)
if set(weight) != set(params): die('IDX does not use every bit parameter once')
weights = [weight[p] for p in params]
guard = re.search(r'if\s+\$range\s*\.\s*contains\s*\(\s*&\s*IDX\s*\)\s*\{', body) is not None
call = re.search(r'set_general_handler_entry!\s*\(([^)]*)\)', body)
cargs = [a.strip() for a in call.group(1).split(',')]
if cargs[:3] != ['$idt', '$handler', 'IDX'] or cargs[3:] != ['$' + p for p in params]: die('unexpected arguments to set_general_handler_entry!: %r' % cargs)
other = [a for a in rb if 'const IDX' not in a[1]]
if len(other) != 1: die('expected one recursive arm')
rec_calls = re.findall(r'set_general_handler_recursive_bits!\s*\(\s*\$idt\s*,\s*\$handler\s*,\s*\$range\s*\$\(\s*,\s*\$bits\s*\)\s*\*\s*,\s*([01])\s*\)', canon_rec_arm(*other[0])[1])
if rec_calls != ['0', '1']: die('the recursive arm must append 0 and then 1: %r' % rec_calls)

# ---- entry arms
arms = []
for pat, body in split_arms(macro_body('set_general_handler_entry')):
    pat, body = canon_entry_arm(pat, body)
    toks = [t.strip() for t in pat.split(',')]
    if not (toks[0].startswith('$idt') and toks[1].startswith('$handler') and toks[2].startswith('$idx')): die('unexpected arm head: ' + pat)
    rest = toks[3:]
    if len(rest) == 8 and all(t in '01' for t in rest): patt = '(Some [%s])' % '; '.join(rest)
    elif len(rest) == 1 and re.fullmatch(r'\$\(\s*', rest[0] + '') is None and '$_bits' in pat: patt = 'None'
    elif '$_bits' in pat: patt = 'None'
    else: die('unexpected arm pattern: ' + pat)
    b = body.strip()
    if b.startswith('{') and b.endswith('}'): b = b[1:-1].strip()
    if b == '':
        arms.append('(%s, GReserved)' % patt); continue
    fn = re.search(r'extern\s+"x86-interrupt"\s+fn\s+handler\s*\(([^)]*)\)\s*(->\s*!)?\s*\{', b)
    if not fn: die('no x86-interrupt stub in arm ' + pat)
    fparams = [p.strip() for p in fn.group(1).split(',') if p.strip()]
    if not fparams or not re.match(r'frame\s*:', fparams[0]): die('first stub parameter is not the frame')
    has_err = len(fparams) == 2
    if has_err and not re.match(r'error_code\s*:', fparams[1]): die('second stub parameter is not error_code')
    if len(fparams) > 2: die('too many stub parameters')
    div = fn.group(2) is not None
    hc = re.findall(r'\$handler\s*\(([^;]*)\)\s*;', b)
    if len(hc) != 1: die('expected exactly one call of the general handler in arm ' + pat)
    hargs = [a.strip() for a in re.split(r',(?![^()]*\))', hc[0])]
    if len(hargs) != 3 or hargs[0] != 'frame': die('unexpected general handler arguments: %r' % hargs)
    idx_own = hargs[1] in ('$idx.into()', 'IDX.into()')
    err = {'None': 0, 'Some(error_code)': 1, 'Some(error_code.bits())': 2}.get(hargs[2])
    if err is None: die('unexpected error-code argument: ' + hargs[2])
    st = re.findall(r'\$idt\s*(\.\s*(\w+)|\[\s*\$idx\s*\])\s*\.\s*set_handler_fn\s*\(\s*handler\s*\)', b)
    if len(st) != 1: die('expected exactly one set_handler_fn(handler) in arm ' + pat)
    field = st[0][1]
    arms.append('(%s, GStub "%s" %s %s %s %s %d)' % (patt, field, 'true' if field == '' else 'false', 'true' if has_err else 'false', 'true' if div else 'false', 'true' if idx_own else 'false', err))

out = ['(* GENERATED by tools/gh_extract.py from /repo/src/structures/idt.rs -- do not edit *)',
       'From Coq Require Import ZArith List String.', 'From X86 Require Import Tables.GeneralDefs.', 'Import ListNotations.', 'Open Scope Z_scope. Open Scope string_scope.',
       'Definition gh_weights : list Z := [%s].' % '; '.join(map(str, weights)),
       'Definition gh_contains_guard : bool := %s.' % ('true' if guard else 'false'),
       'Definition gh_arms : list (option (list Z) * gh_body) :=', '  [' + ';\n   '.join(arms) + '].']
txt = '\n'.join(out) + '\n'
if not os.path.exists(OUT) or open(OUT).read() != txt:
    open(OUT, 'w').write(txt)
print('gh_extract: %d arms, weights %s, guard %s' % (len(arms), weights, guard))
