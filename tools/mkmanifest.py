#!/usr/bin/env python3
"""Regenerates MANIFEST.json from tools/manifest_data.py (kept in one place so that the
manifest is always schema-valid)."""
import json, os, sys
V = os.path.dirname(os.path.dirname(os.path.abspath(__file__)))
sys.path.insert(0, os.path.join(V, 'tools'))
from manifest_data import CHECKS, NOT_APPLICABLE, HOOK_COMMITS, NOTES
m = dict(version=1, setup_cmd='./check --setup',
  hooks=dict(guard='x86_64_verif', enable='RUSTFLAGS="--cfg x86_64_verif --check-cfg cfg(x86_64_verif)" cargo +nightly build --offline (harness crate depends on x86_64 = { path = "/repo" })',
             baseline_off_cmd='cd /repo && cargo test --workspace --no-fail-fast --offline', source_commits=HOOK_COMMITS, add_only=True),
  engines=[dict(name='coq', path='coq/', serves_properties=[c['property_id'] for c in CHECKS], kind_free_text='Coq 8.16.1 development: hand-written Gallina model + theorems (coq/theories/Props/<id>.v)'),
           dict(name='correspondence', path='harness/ + ocaml/ + check', serves_properties=[c['property_id'] for c in CHECKS], kind_free_text='Rust harness running the real crate vs. the Coq model extracted to OCaml, on the same generated cases; property oracle on every implementation answer')],
  checks=[], notes=NOTES, not_applicable=NOT_APPLICABLE)
for c in CHECKS:
    pid = c['property_id']
    m['checks'].append(dict(property_id=pid, quick_cmd='./check %s --tier quick' % pid, thorough_cmd='./check %s --tier thorough' % pid,
        evidence_file='/verif/evidence/%s.json' % pid, replay_cmd_template='./check %s --replay {path}' % pid, engine='coq+correspondence',
        level_claimed=dict(category='proof', text=c['text'], design_ref=c['design_ref']), level_note=c['note'], technique=c['technique']))
json.dump(m, open(os.path.join(V, 'MANIFEST.json'), 'w'), indent=1)
try:
    import jsonschema
    jsonschema.validate(m, json.load(open('/root/.vp/MANIFEST.schema.json')))
    print('MANIFEST.json valid,', len(m['checks']), 'checks')
except ImportError:
    print('written (jsonschema not available)')
