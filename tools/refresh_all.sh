#!/bin/bash
# Runs every registered quick check on the CLEAN /repo tree so that the committed evidence files
# come from a run on the unchanged tree; refuses to run when /repo has local modifications.
cd /verif
if [ -n "$(git -C /repo status --porcelain --untracked-files=no)" ]; then echo "/repo is not clean"; exit 1; fi
rc=0
for i in $(seq -w 1 20); do
  out=$(./check C$i --tier quick 2>&1 | grep -E "VIOLATION|OK tier|FAILED|KNOWN-FINDING" | cut -c1-140)
  echo "$out" | grep -E "OK tier|FAILED|VIOLATION"
  echo "$out" | grep -q "OK tier" || rc=1
done
python3 - <<'PY'
import json,glob
bad=[f for f in glob.glob('/verif/evidence/C*.json') if (lambda e: e['coverage']['discharged']!=e['coverage']['obligations'] or e['violations'])(json.load(open(f)))]
print('evidence files with problems:', bad)
PY
exit $rc
