#!/usr/bin/env python3
"""Confirmation and evaluation of seeded changes produced by sub-agents (DESIGN.md section 9).
  seed_confirm.py confirm <id>   in the scratch worktree /tmp/wt/<id>: each patch applies, the crate's
                                 test suite still passes, the demo passes on the pristine tree and fails
                                 on the patched one
  seed_confirm.py eval <id>      applies each confirmed patch to /repo, runs ./check <id>, records what
                                 the check reported, and undoes the patch (git checkout)
Results go to /verif/seeded/<id>/<n>/{patch.diff, demo.rs, meta.json}."""
import json, os, re, shutil, subprocess, sys
V = '/verif'
def sh(cmd, cwd=None, timeout=3000):
    r = subprocess.run(cmd, shell=True, cwd=cwd, stdout=subprocess.PIPE, stderr=subprocess.STDOUT, text=True, timeout=timeout)
    return r.returncode, r.stdout
WT = os.environ.get('SEED_WT', '/tmp/wt')
OFFSET = int(os.environ.get('SEED_OFFSET', '0'))
def confirm(pid):
    wt, out = WT + '/' + pid, '%s/%s.out' % (WT, pid)
    for i in range(1, 6):
        pf = '%s/patch%d.diff' % (out, i)
        if not os.path.exists(pf): continue
        d = '%s/seeded/%s/%d' % (V, pid, i + OFFSET); os.makedirs(d, exist_ok=True)
        meta = {}
        try: meta = json.load(open('%s/meta%d.json' % (out, i)))
        except Exception as e: meta = {'agent_meta_error': str(e)}
        res = {'property': pid, 'agent': meta}
        sh('git checkout -- . && rm -rf tests', wt)
        rc, o = sh('git apply --check %s && git apply %s' % (pf, pf), wt)
        res['applies'] = rc == 0
        if rc == 0:
            rc, o = sh('cargo test --offline 2>&1 | grep -E "^test result|FAILED|error(\\[|:)" | head -20', wt)
            oks = re.findall(r'test result: ok\. (\d+) passed', o)
            res['suite'] = o.strip().split('\n')[:6]
            res['suite_passes'] = 'FAILED' not in o and 'error' not in o and len(oks) >= 2 and int(oks[0]) == 36
            demo = '%s/demo%d.rs' % (out, i)
            if os.path.exists(demo):
                os.makedirs(wt + '/tests', exist_ok=True); shutil.copy(demo, wt + '/tests/seed_demo.rs'); shutil.copy(demo, d + '/demo.rs')
                for prof, flag in (('debug', ''), ('release', '--release')):
                    rc1, o1 = sh('cargo test --offline %s --test seed_demo 2>&1' % flag, wt)
                    res['demo_on_patched_' + prof] = 'fails' if rc1 != 0 else 'passes'
                    if rc1 != 0: res['demo_failure_excerpt'] = [l for l in o1.split('\n') if 'panicked' in l or 'assert' in l][:3]
                sh('git checkout -- .', wt)
                for prof, flag in (('debug', ''), ('release', '--release')):
                    rc2, o2 = sh('cargo test --offline %s --test seed_demo 2>&1' % flag, wt)
                    res['demo_on_pristine_' + prof] = 'fails' if rc2 != 0 else 'passes'
                shutil.rmtree(wt + '/tests', ignore_errors=True)
        sh('git checkout -- . && rm -rf tests', wt)
        shutil.copy(pf, d + '/patch.diff')
        broke = any(res.get('demo_on_patched_' + p) == 'fails' and res.get('demo_on_pristine_' + p) == 'passes' for p in ('debug', 'release'))
        res['confirmed'] = bool(res.get('applies') and res.get('suite_passes') and broke)
        json.dump(res, open(d + '/meta.json', 'w'), indent=1)
        print(pid, i, 'confirmed' if res['confirmed'] else 'NOT CONFIRMED', {k: v for k, v in res.items() if k.startswith('demo_on') or k in ('applies', 'suite_passes')})
def evaluate(pid, checks=None):
    base = '%s/seeded/%s' % (V, pid)
    only = os.environ.get('SEED_ONLY')
    for n in sorted(os.listdir(base), key=lambda x: int(x) if x.isdigit() else 0):
        if only and not (n.isdigit() and int(n) > int(only)): continue
        d = '%s/%s' % (base, n); mf = d + '/meta.json'
        if not os.path.exists(mf): continue
        meta = json.load(open(mf))
        if not meta.get('confirmed'): continue
        rc, o = sh('git -C /repo status --porcelain --untracked-files=no')
        if o.strip(): print('REFUSING: /repo is not clean'); sys.exit(1)
        rc, o = sh('git -C /repo apply %s/patch.diff' % d)
        if rc: print(pid, n, 'patch does not apply to /repo', o[:200]); continue
        meta['checks'] = {}
        try:
            for c in (checks or [pid]):
                rc, o = sh('%s/check %s' % (V, c))
                vio = [l for l in o.split('\n') if 'VIOLATION' in l]
                rp = re.search(r'replay=(\S+)', vio[0]).group(1) if vio else None
                detail = {}
                if rp and os.path.exists(rp):
                    t = open(rp).read()
                    detail = {'kind': (re.search(r'kind=(\S+)', t) or [None, None])[1], 'oracle': (re.search(r'^oracle=(.*)$', t, re.M) or [None, None])[1], 'input': ((re.search(r'^input=(.*)$', t, re.M) or [None, ''])[1])[:300],
                              'also': re.findall(r'^also: kind=(\S+)', t, re.M)}
                meta['checks'][c] = {'exit': rc, 'violation_line': vio[0].strip() if vio else None, 'with_failing_input': bool(vio) and 'no-failing-input-found' not in vio[0], **detail}
                print(pid, n, c, 'exit', rc, (vio[0].strip() if vio else 'NOT DETECTED'), detail.get('oracle') or detail.get('kind'))
        finally:
            sh('git -C /repo checkout -- .')
            for tool in ('asm_extract.py', 'gh_extract.py', 'consts_extract.py'):   # generated Coq inputs back to the clean tree's
                sh('python3 %s/tools/%s' % (V, tool))
        json.dump(meta, open(mf, 'w'), indent=1)
if __name__ == '__main__':
    if sys.argv[1] == 'confirm': confirm(sys.argv[2])
    else: evaluate(sys.argv[2], sys.argv[3:] or None)
